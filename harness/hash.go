package main

// Component "hash": hash.New().Hash on real files, run in a child process so that a crash, a
// hang, a leaked goroutine or a data race (race-detector build) is an observation.
//
// case line:  <ncpu>|<schedseed>|<k>:<pathhex>:<contenthex>,...     k = f (regular) d (directory) m (unreadable)
// impl line:  D <hexdigest> | ERR | CRASH | HANG | LEAK <n> | RACE
// oracle:     C04 (order independence, change sensitivity) and C18 (clean return) evaluated on the implementation

import (
	"bufio"
	"encoding/json"
	"flag"
	"fmt"
	"io"
	"math/rand"
	"os"
	"os/exec"
	"path/filepath"
	"runtime"
	"strconv"
	"strings"
	"time"

	"github.com/FollowTheProcess/spok/hash"
)

func init() {
	commands["hash"] = hashCmd
	commands["hash-worker"] = hashWorker
}

// ---- worker: reads "<gomaxprocs> <path>\x00<path>..." lines (paths hex, comma separated), prints one result per line
func hashWorker(args []string) error {
	in := bufio.NewReaderSize(os.Stdin, 1<<20)
	out := bufio.NewWriter(os.Stdout)
	// one hasher for the life of the worker, as spok uses one hasher for all tasks of a run: the digest must not depend on
	// what the hasher was asked before
	hasher := hash.New()
	for {
		line, err := in.ReadString('\n')
		if err != nil {
			return nil
		}
		line = strings.TrimSpace(line)
		sp := strings.SplitN(line, " ", 2)
		gmp, _ := strconv.Atoi(sp[0])
		var files []string
		if len(sp) == 2 && sp[1] != "" {
			for _, h := range strings.Split(sp[1], ",") {
				files = append(files, unhx(h))
			}
		}
		runtime.GOMAXPROCS(gmp)
		before := runtime.NumGoroutine()
		d, herr := hasher.Hash(files)
		// give finished goroutines a moment to be reaped before counting
		after := runtime.NumGoroutine()
		for i := 0; i < 200 && after > before; i++ {
			time.Sleep(time.Millisecond)
			after = runtime.NumGoroutine()
		}
		switch {
		case after > before && herr == nil:
			fmt.Fprintf(out, "LEAK %d D %s\n", after-before, d) // the digest is still an observation (C04), the leak is C18's
		case after > before:
			fmt.Fprintf(out, "LEAK %d\n", after-before)
		case herr != nil:
			fmt.Fprintln(out, "ERR")
		default:
			fmt.Fprintf(out, "D %s\n", d)
		}
		out.Flush()
	}
}

func unhx(h string) string {
	b := make([]byte, len(h)/2)
	for i := range b {
		v, _ := strconv.ParseUint(h[2*i:2*i+2], 16, 8)
		b[i] = byte(v)
	}
	return string(b)
}

type worker struct {
	cmd *exec.Cmd
	in  io.WriteCloser
	out *bufio.Reader
}

func startWorker(bin string) (*worker, error) {
	cmd := exec.Command(bin, "hash-worker")
	cmd.Env = append(os.Environ(), "GORACE=halt_on_error=1 exitcode=66")
	in, _ := cmd.StdinPipe()
	op, _ := cmd.StdoutPipe()
	cmd.Stderr = io.Discard
	if err := cmd.Start(); err != nil {
		return nil, err
	}
	return &worker{cmd, in, bufio.NewReaderSize(op, 1<<16)}, nil
}

func (w *worker) stop() {
	w.in.Close()
	w.cmd.Process.Kill()
	w.cmd.Wait()
}

// ask runs one case; restarts the worker if it died or hung.
func ask(w **worker, bin string, gmp int, files []string, timeout time.Duration) string {
	if *w == nil {
		nw, err := startWorker(bin)
		if err != nil {
			return "NOWORKER"
		}
		*w = nw
	}
	hs := make([]string, len(files))
	for i, f := range files {
		hs[i] = hx(f)
	}
	fmt.Fprintf((*w).in, "%d %s\n", gmp, strings.Join(hs, ","))
	ch := make(chan string, 1)
	go func(r *bufio.Reader) {
		l, err := r.ReadString('\n')
		if err != nil {
			ch <- "DEAD"
			return
		}
		ch <- strings.TrimSpace(l)
	}((*w).out)
	select {
	case r := <-ch:
		if r == "DEAD" {
			err := (*w).cmd.Wait()
			res := "CRASH"
			if ee, ok := err.(*exec.ExitError); ok && ee.ExitCode() == 66 {
				res = "RACE"
			}
			(*w).in.Close()
			*w = nil
			return res
		}
		return r
	case <-time.After(timeout):
		(*w).stop()
		*w = nil
		return "HANG"
	}
}

type hentry struct {
	kind    byte // f d m
	path    string
	content string
}

type hashStats struct {
	Cases      int            `json:"cases"`
	Nontrivial int            `json:"distinct_nontrivial"`
	BySource   map[string]int `json:"by_source"`
	SizeHist   map[string]int `json:"list_size_histogram"`
	Outcomes   map[string]int `json:"outcomes"`
	WithDup    int            `json:"lists_with_duplicates"`
	WithDir    int            `json:"lists_with_directories"`
	WithBad    int            `json:"lists_with_unreadable_entries"`
	GoMaxProcs map[string]int `json:"gomaxprocs"`
	NumCPU     int            `json:"numcpu"`
	Race       bool           `json:"race_detector_build"`
	PermGroups int            `json:"permutation_groups_complete"`
	Samples    []string       `json:"samples"`
	OracleFail map[string]int `json:"oracle_failures"`
}

func sizeBucket(n int) string {
	switch {
	case n <= 6:
		return strconv.Itoa(n)
	case n <= 16:
		return "7-16"
	case n <= 64:
		return "17-64"
	case n <= 1000:
		return "65-1000"
	}
	return ">1000"
}

func permutations(n int) [][]int {
	var res [][]int
	p := make([]int, n)
	for i := range p {
		p[i] = i
	}
	var rec func(k int)
	rec = func(k int) {
		if k == n {
			res = append(res, append([]int(nil), p...))
			return
		}
		for i := k; i < n; i++ {
			p[k], p[i] = p[i], p[k]
			rec(k + 1)
			p[k], p[i] = p[i], p[k]
		}
	}
	rec(0)
	return res
}

func hashCmd(args []string) error {
	fs := flag.NewFlagSet("hash", flag.ExitOnError)
	out := fs.String("out", "", "output directory")
	tier := fs.String("tier", "quick", "")
	seed := fs.Int64("seed", 1, "")
	shard := fs.Int("shard", 0, "")
	nshards := fs.Int("nshards", 1, "")
	race := fs.String("racebin", "", "race-detector build of verifh (used for the worker when given)")
	fs.Parse(args)
	sfx := fmt.Sprintf(".%d.txt", *shard)
	fc, _ := os.Create(filepath.Join(*out, "cases"+sfx))
	fi, _ := os.Create(filepath.Join(*out, "impl"+sfx))
	fo, _ := os.Create(filepath.Join(*out, "oracle"+sfx))
	bc, bi, bo := bufio.NewWriter(fc), bufio.NewWriter(fi), bufio.NewWriter(fo)
	st := hashStats{BySource: map[string]int{}, SizeHist: map[string]int{}, Outcomes: map[string]int{}, GoMaxProcs: map[string]int{},
		OracleFail: map[string]int{}, NumCPU: runtime.NumCPU(), Race: *race != ""}
	bin, _ := os.Executable()
	if *race != "" {
		bin = *race
	}
	r := rand.New(rand.NewSource(*seed*7919 + int64(*shard)))

	// the universe: V variants of the same names with different contents, real files under a private root
	root, err := os.MkdirTemp(*out, "u")
	if err != nil {
		return err
	}
	root, _ = filepath.Abs(root)
	defer os.RemoveAll(root)
	names := []string{"a", "ab", "b", "ba", "a b", "d/x", "d/y", "e/f/g", "é", "a.txt", "z", "abc"}
	dirs := []string{"d", "e", "e/f", "dd"}
	contents := []string{"", "x", "hi", "hi\n", "ab", strings.Repeat("q", 70), "\x00\xff", "b"}
	nvar := 3
	uni := make([][]hentry, nvar)
	for v := 0; v < nvar; v++ {
		base := filepath.Join(root, "v"+strconv.Itoa(v))
		for _, d := range dirs {
			os.MkdirAll(filepath.Join(base, d), 0o755)
			uni[v] = append(uni[v], hentry{'d', filepath.Join(base, d), ""})
		}
		for i, n := range names {
			c := contents[(i*(v+1)+v)%len(contents)]
			p := filepath.Join(base, n)
			os.MkdirAll(filepath.Dir(p), 0o755)
			os.WriteFile(p, []byte(c), 0o644)
			uni[v] = append(uni[v], hentry{'f', p, c})
		}
		// unreadable entries: missing file, missing in missing dir, dangling symlink
		uni[v] = append(uni[v], hentry{'m', filepath.Join(base, "nope"), ""}, hentry{'m', filepath.Join(base, "no/such/file"), ""})
		os.Symlink(filepath.Join(base, "gone"), filepath.Join(base, "dang"))
		uni[v] = append(uni[v], hentry{'m', filepath.Join(base, "dang"), ""})
		// entries that cannot even be inspected for reasons other than "does not exist": a symbolic link that points to itself,
		// a path that runs through a regular file, a name longer than the file system allows
		os.Symlink("loop", filepath.Join(base, "loop"))
		uni[v] = append(uni[v], hentry{'m', filepath.Join(base, "loop"), ""}, hentry{'m', filepath.Join(base, "a", "x"), ""},
			hentry{'m', filepath.Join(base, strings.Repeat("n", 300)), ""})
		// a symlink to a regular file reads as that file's content under the link's path
		os.Symlink(filepath.Join(base, "a"), filepath.Join(base, "lnk"))
		uni[v] = append(uni[v], hentry{'f', filepath.Join(base, "lnk"), contents[(0*(v+1)+v)%len(contents)]})
	}
	good := func(v int) []hentry {
		var g []hentry
		for _, e := range uni[v] {
			if e.kind != 'm' {
				g = append(g, e)
			}
		}
		return g
	}
	bad := func(v int) []hentry {
		var g []hentry
		for _, e := range uni[v] {
			if e.kind == 'm' {
				g = append(g, e)
			}
		}
		return g
	}

	var w *worker
	defer func() {
		if w != nil {
			w.stop()
		}
	}()
	gmps := []int{1, 2, 4, 16}
	caseNo := 0
	seenLists := map[string]bool{}
	fail := func(prop, cs, detail string) {
		st.OracleFail[prop]++
		fmt.Fprintf(bo, "%s %s %s\n", prop, cs, detail)
	}
	// dg: the digest part of a result ("" when there is none)
	dg := func(res string) string {
		if i := strings.Index(res, "D "); i >= 0 {
			return res[i:]
		}
		return ""
	}
	runCase := func(source string, list []hentry) string {
		caseNo++
		gmp := gmps[(caseNo+int(*seed))%len(gmps)]
		files := make([]string, len(list))
		enc := make([]string, len(list))
		seen := map[string]bool{}
		dup, hasDir, hasBad := false, false, false
		for i, e := range list {
			files[i] = e.path
			enc[i] = fmt.Sprintf("%c:%s:%s", e.kind, hx(e.path), hx(e.content))
			if seen[e.path] {
				dup = true
			}
			seen[e.path] = true
			hasDir = hasDir || e.kind == 'd'
			hasBad = hasBad || e.kind == 'm'
		}
		cs := fmt.Sprintf("%d|%d|%s", runtime.NumCPU(), r.Intn(1000), strings.Join(enc, ","))
		to := 10 * time.Second
		if len(list) > 1000 {
			to = 60 * time.Second
		}
		res := ask(&w, bin, gmp, files, to)
		fmt.Fprintln(bc, cs)
		fmt.Fprintln(bi, res)
		st.Cases++
		st.BySource[source]++
		st.SizeHist[sizeBucket(len(list))]++
		st.Outcomes[strings.SplitN(res, " ", 2)[0]]++
		st.GoMaxProcs[strconv.Itoa(gmp)]++
		if key := strings.Join(enc, ","); len(list) >= 2 && !seenLists[key] {
			seenLists[key] = true
			st.Nontrivial++
		}
		if dup {
			st.WithDup++
		}
		if hasDir {
			st.WithDir++
		}
		if hasBad {
			st.WithBad++
		}
		if len(st.Samples) < 4 && len(list) >= 2 && len(list) <= 4 && caseNo%7 == 1 {
			var rel []string
			for _, e := range list {
				rp, _ := filepath.Rel(root, e.path)
				rel = append(rel, fmt.Sprintf("%c:%s=%q", e.kind, rp, e.content))
			}
			st.Samples = append(st.Samples, fmt.Sprintf("GOMAXPROCS=%d [%s] -> %s", gmp, strings.Join(rel, " "), res))
		}
		// C18 oracle: clean return, error iff an unreadable entry is present
		switch {
		case res == "CRASH" || res == "HANG" || res == "RACE" || strings.HasPrefix(res, "LEAK") || res == "NOWORKER":
			fail("C18", cs, "hashing did not return cleanly: "+res)
		case hasBad && res != "ERR":
			fail("C18", cs, "list contains an unreadable entry but the result is "+res)
		case !hasBad && !strings.HasPrefix(res, "D "):
			fail("C18", cs, "all entries are readable but the result is "+res)
		}
		return res
	}
	sub := func(src []hentry, n int) []hentry {
		l := make([]hentry, n)
		for i := range l {
			l[i] = src[r.Intn(len(src))]
		}
		return l
	}

	// (a) every permutation of small base lists (with duplicates and directories); digests must coincide
	maxPerm := 4
	ngroups := 6
	if *tier == "thorough" {
		maxPerm, ngroups = 5, 24
	}
	for g := 0; g < ngroups; g++ {
		if g%*nshards != *shard {
			r.Int63() // keep streams roughly aligned
			continue
		}
		v := g % nvar
		n := 2 + g%(maxPerm-1)
		base := sub(good(v), n)
		if g%3 == 0 && n >= 2 {
			base[1] = base[0] // duplicate
		}
		first := ""
		for _, p := range permutations(n) {
			l := make([]hentry, n)
			for i, j := range p {
				l[i] = base[j]
			}
			res := runCase("all-permutations", l)
			if first == "" {
				first = res
			} else if dg(res) != dg(first) && dg(res) != "" && dg(first) != "" {
				fail("C04", fmt.Sprintf("perm-group-%d", g), fmt.Sprintf("two orderings of the same list give %s and %s", first, res))
			}
		}
		st.PermGroups++
		// change sensitivity on this base list: remove one, add one, other content (other variant has other contents), rename
		if dg(first) != "" {
			var regs []hentry
			for _, e := range base {
				if e.kind == 'f' {
					regs = append(regs, e)
				}
			}
			if len(regs) > 0 {
				minus := []hentry{}
				dropped := false
				for _, e := range base {
					if !dropped && e.kind == 'f' {
						dropped = true
						continue
					}
					minus = append(minus, e)
				}
				if res := runCase("remove-file", minus); dg(res) == dg(first) {
					fail("C04", fmt.Sprintf("perm-group-%d", g), "removing a regular file left the digest unchanged")
				}
			}
			extra := good(v)[r.Intn(len(good(v)))]
			if extra.kind == 'f' {
				if res := runCase("add-file", append(append([]hentry{}, base...), extra)); dg(res) == dg(first) {
					fail("C04", fmt.Sprintf("perm-group-%d", g), "adding a regular file left the digest unchanged")
				}
			}
		}
	}
	// (a3) two files with the same base name in different directories: exchanging their contents is a change
	if *shard == 2%*nshards {
		da, db := filepath.Join(root, "same", "client"), filepath.Join(root, "same", "server")
		os.MkdirAll(da, 0o755)
		os.MkdirAll(db, 0o755)
		pa, pb := filepath.Join(da, "version.txt"), filepath.Join(db, "version.txt")
		os.WriteFile(pa, []byte("1.0"), 0o644)
		os.WriteFile(pb, []byte("2.0"), 0o644)
		l := []string{pa, pb}
		d0 := ask(&w, bin, 4, l, 10*time.Second)
		os.WriteFile(pa, []byte("2.0"), 0o644)
		os.WriteFile(pb, []byte("1.0"), 0o644)
		d1 := ask(&w, bin, 4, l, 10*time.Second)
		st.BySource["same-base-name(impl only)"]++
		if dg(d0) != "" && dg(d0) == dg(d1) {
			fail("C04", "same-base-name", "two files called version.txt in different directories: exchanging their contents left the digest unchanged")
		}
		os.Remove(pb)
		pc := filepath.Join(root, "same", "version.txt")
		os.WriteFile(pc, []byte("1.0"), 0o644)
		if d2 := ask(&w, bin, 4, []string{pa, pc}, 10*time.Second); dg(d1) != "" && dg(d2) == dg(d1) {
			fail("C04", "same-base-name", "moving a file to another directory under the same name left the digest unchanged")
		}
	}
	// (a5) paths longer than any fixed buffer somebody might think of (1024 is PATH_MAX on some systems, 4096 on this one)
	if *shard == 3%*nshards {
		deep := filepath.Join(root, "deep")
		for i := 0; i < 5; i++ {
			deep = filepath.Join(deep, strings.Repeat(string(rune('p'+i)), 240))
		}
		if os.MkdirAll(deep, 0o755) == nil {
			px, py, pz := filepath.Join(deep, "x.txt"), filepath.Join(deep, "y.txt"), filepath.Join(deep, "z.txt")
			os.WriteFile(px, []byte("one"), 0o644)
			os.WriteFile(py, []byte("two"), 0o644)
			d0 := ask(&w, bin, 4, []string{px, py}, 10*time.Second)
			os.WriteFile(px, []byte("two"), 0o644)
			os.WriteFile(py, []byte("one"), 0o644)
			d1 := ask(&w, bin, 4, []string{px, py}, 10*time.Second)
			os.Rename(px, pz)
			d2 := ask(&w, bin, 4, []string{pz, py}, 10*time.Second)
			st.BySource["long-paths(impl only)"]++
			if dg(d0) != "" && dg(d0) == dg(d1) {
				fail("C04", "long-paths", fmt.Sprintf("two files whose absolute paths are %d bytes long: exchanging their contents left the digest unchanged", len(px)))
			}
			if dg(d1) != "" && dg(d1) == dg(d2) {
				fail("C04", "long-paths", fmt.Sprintf("a file whose absolute path is %d bytes long: renaming it left the digest unchanged", len(px)))
			}
		}
	}
	// (a'') sizes and counts at which an implementation might change strategy (impl only): files of 1 MiB and 32 MiB and a little
	// more, lists a little longer than the number of CPUs.  Every byte of every listed file counts, a file's timestamps do not,
	// and a file that opens but cannot be read is an error
	if *shard == 1%*nshards {
		big := filepath.Join(root, "big")
		os.MkdirAll(big, 0o755)
		sizes := []int{1 << 20, 1<<20 + 1, 1<<20 + 65536, 4 << 20}
		if *tier == "thorough" {
			sizes = append(sizes, 32<<20, 32<<20+1, 40<<20)
		} else {
			sizes = append(sizes, 33<<20)
		}
		for si, n := range sizes {
			p := filepath.Join(big, fmt.Sprintf("b%d.bin", si))
			data := make([]byte, n)
			for i := range data {
				data[i] = byte(i * 7)
			}
			os.WriteFile(p, data, 0o644)
			l := []string{p, filepath.Join(root, "v0", "a")}
			d0 := ask(&w, bin, gmps[si%4], l, 60*time.Second)
			st.BySource["large-file(impl only)"]++
			// (i) touching the file (new modification time, same bytes) changes nothing
			os.Chtimes(p, time.Unix(1000000000+int64(si), 0), time.Unix(1000000000+int64(si), 0))
			if d1 := ask(&w, bin, gmps[si%4], l, 60*time.Second); dg(d0) != "" && dg(d1) != dg(d0) {
				fail("C04", fmt.Sprintf("large-file-%d", n), fmt.Sprintf("a file of %d bytes: changing only its modification time changed the digest", n))
			}
			// (ii) editing one byte - near the start, in the middle, the last one - changes the digest
			for _, off := range []int{100, n / 2, n - 1} {
				data[off] ^= 0xff
				os.WriteFile(p, data, 0o644)
				d2 := ask(&w, bin, gmps[si%4], l, 60*time.Second)
				if dg(d0) != "" && dg(d2) == dg(d0) {
					fail("C04", fmt.Sprintf("large-file-%d", n), fmt.Sprintf("a file of %d bytes: editing byte %d left the digest unchanged", n, off))
				}
				data[off] ^= 0xff
			}
			os.Remove(p)
		}
		// lists of 2*NumCPU+1 and 3*NumCPU+5 distinct files: every position counts, whatever the order
		many := filepath.Join(root, "many")
		os.MkdirAll(many, 0o755)
		for _, n := range []int{2*runtime.NumCPU() + 1, 3*runtime.NumCPU() + 5, runtime.NumCPU() + 1} {
			var l []string
			for i := 0; i < n; i++ {
				p := filepath.Join(many, fmt.Sprintf("m%03d.dat", i))
				os.WriteFile(p, []byte(fmt.Sprintf("content %d", i)), 0o644)
				l = append(l, p)
			}
			d0 := ask(&w, bin, gmps[n%4], l, 30*time.Second)
			st.BySource["long-list(impl only)"]++
			rev := make([]string, n)
			for i := range l {
				rev[n-1-i] = l[i]
			}
			if d1 := ask(&w, bin, gmps[(n+1)%4], rev, 30*time.Second); dg(d0) != "" && dg(d1) != dg(d0) {
				fail("C04", fmt.Sprintf("long-list-%d", n), fmt.Sprintf("a list of %d files hashed in reverse order gives another digest", n))
			}
			for _, i := range []int{0, n / 2, n - 2, n - 1} {
				os.WriteFile(l[i], []byte("edited"), 0o644)
				if d2 := ask(&w, bin, gmps[n%4], l, 30*time.Second); dg(d0) != "" && dg(d2) == dg(d0) {
					fail("C04", fmt.Sprintf("long-list-%d", n), fmt.Sprintf("a list of %d files: editing file number %d left the digest unchanged", n, i))
				}
				os.WriteFile(l[i], []byte(fmt.Sprintf("content %d", i)), 0o644)
			}
			if d3 := ask(&w, bin, gmps[n%4], l[:n-1], 30*time.Second); dg(d0) != "" && dg(d3) == dg(d0) {
				fail("C04", fmt.Sprintf("long-list-%d", n), fmt.Sprintf("a list of %d files: dropping the last one left the digest unchanged", n))
			}
		}
		// a file that can be opened but not read (reading /proc/self/mem at offset 0 fails with EIO)
		if _, err := os.Stat("/proc/self/mem"); err == nil {
			lnk := filepath.Join(root, "unreadable-content")
			os.Symlink("/proc/self/mem", lnk)
			for _, l := range [][]string{{lnk}, {filepath.Join(root, "v0", "a"), lnk}, {lnk, filepath.Join(root, "v0", "b"), filepath.Join(root, "v0", "z")}} {
				res := ask(&w, bin, gmps[len(l)%4], l, 10*time.Second)
				st.BySource["read-error(impl only)"]++
				if res != "ERR" {
					fail("C18", "read-error", fmt.Sprintf("a list of %d entries with a file whose content cannot be read gave %s instead of an error", len(l), res))
				}
			}
		}
	}
	// (a') change sensitivity when the list names a file more than once (impl only: the files are rewritten)
	if *shard == 0 {
		for k := 0; k < 12; k++ {
			p := filepath.Join(root, fmt.Sprintf("dup%d", k))
			q := filepath.Join(root, fmt.Sprintf("other%d", k))
			os.WriteFile(p, []byte("one"), 0o644)
			os.WriteFile(q, []byte("q"), 0o644)
			lists := [][]string{{p, p}, {p, p, q}, {q, p, p}, {p, q, p, q}, {p, p, p}}
			l := lists[k%len(lists)]
			d1 := ask(&w, bin, gmps[k%4], l, 10*time.Second)
			os.WriteFile(p, []byte("two"), 0o644)
			d2 := ask(&w, bin, gmps[k%4], l, 10*time.Second)
			st.BySource["duplicate-then-edit(impl only)"]++
			if strings.HasPrefix(d1, "D ") && d1 == d2 {
				fail("C04", fmt.Sprintf("dup-list-%d", k), fmt.Sprintf("a list naming %s %d times: editing that file left the digest unchanged (%s)", filepath.Base(p), strings.Count(strings.Join(l, " "), p), d1))
			}
			r2 := filepath.Join(root, fmt.Sprintf("renamed%d", k))
			os.Rename(p, r2)
			l2 := make([]string, len(l))
			for i, x := range l {
				l2[i] = x
				if x == p {
					l2[i] = r2
				}
			}
			d3 := ask(&w, bin, gmps[k%4], l2, 10*time.Second)
			if strings.HasPrefix(d2, "D ") && d2 == d3 {
				fail("C04", fmt.Sprintf("dup-list-%d", k), "renaming a file named twice in the list left the digest unchanged")
			}
		}
	}
	// (a'') different file sets whose (path, content) pairs concatenate to the same bytes must not share a digest
	// (impl only): file n containing s++c  versus  file n++s containing c - and the same with the boundary moved
	// between two files of one list
	if *shard == 0 {
		k := 0
		for _, n := range []string{"a", "main", "x1"} {
			for _, sfx := range []string{"b", ".go", "0"} {
				for _, c := range []string{"", "payload\n"} {
					k++
					d := filepath.Join(root, fmt.Sprintf("amb%d", k))
					os.MkdirAll(d, 0o755)
					f1, f2 := filepath.Join(d, n), filepath.Join(d, n+sfx)
					os.WriteFile(f1, []byte(sfx+c), 0o644)
					d1 := ask(&w, bin, gmps[k%4], []string{f1}, 10*time.Second)
					os.Remove(f1)
					os.WriteFile(f2, []byte(c), 0o644)
					d2 := ask(&w, bin, gmps[k%4], []string{f2}, 10*time.Second)
					st.BySource["path/content boundary pairs(impl only)"]++
					if strings.HasPrefix(d1, "D ") && d1 == d2 {
						fail("C04", fmt.Sprintf("boundary-%d", k), fmt.Sprintf("file %q containing %q and file %q containing %q have the same digest %s", n, sfx+c, n+sfx, c, d1))
					}
					// content of one file moved into the next file of the list
					g1, g2 := filepath.Join(d, "p"), filepath.Join(d, "q")
					os.WriteFile(g1, []byte("AB"), 0o644)
					os.WriteFile(g2, []byte(c), 0o644)
					e1 := ask(&w, bin, gmps[k%4], []string{g1, g2}, 10*time.Second)
					os.WriteFile(g1, []byte("A"), 0o644)
					os.WriteFile(g2, []byte("B"+c), 0o644)
					e2 := ask(&w, bin, gmps[k%4], []string{g1, g2}, 10*time.Second)
					if strings.HasPrefix(e1, "D ") && e1 == e2 {
						fail("C04", fmt.Sprintf("boundary-%d", k), "moving a byte from the end of one file to the start of another left the digest unchanged")
					}
				}
			}
		}
	}
	// (b) every position of an unreadable entry in lists of size <= 6
	if *shard == 0 {
		for n := 1; n <= 6; n++ {
			for pos := 0; pos < n; pos++ {
				v := (n + pos) % nvar
				l := sub(good(v), n)
				l[pos] = bad(v)[(n+pos)%len(bad(v))]
				runCase("bad-entry-every-position", l)
			}
		}
		runCase("empty", nil)
	}
	// (c) sizes around the worker-count boundary, random content incl. duplicates, directories, bad entries
	nrand := 1500
	if *tier == "thorough" {
		nrand = 20000
	}
	ncpu := runtime.NumCPU()
	for i := 0; i < nrand / *nshards; i++ {
		v := r.Intn(nvar)
		var n int
		switch r.Intn(4) {
		case 0:
			n = r.Intn(7)
		case 1:
			n = ncpu - 2 + r.Intn(5)
		case 2:
			n = r.Intn(4*ncpu + 1)
		default:
			n = r.Intn(12)
		}
		if n < 0 {
			n = 0
		}
		src := good(v)
		if r.Intn(5) == 0 {
			src = uni[v]
		}
		runCase("random", sub(src, n))
	}
	// (d) a large list (thorough: 10^4, quick: 1500), shard 0 only
	if *shard == 0 {
		big := 600
		if *tier == "thorough" {
			big = 10000
		}
		runCase("large", sub(good(0), big))
		lb := sub(good(1), big/2)
		lb[len(lb)/2] = bad(1)[0]
		runCase("large-with-bad-entry", lb)
	}
	// (e) a file that vanishes while the list is being hashed: the outcome may be a digest or an error, never a fault
	if *shard == 0 {
		for k := 0; k < 20; k++ {
			p := filepath.Join(root, fmt.Sprintf("vanish%d", k))
			os.WriteFile(p, []byte(strings.Repeat("v", 1<<16)), 0o644)
			l := sub(good(0), 8)
			files := []string{}
			for _, e := range l {
				files = append(files, e.path)
			}
			files = append(files, p)
			done := make(chan bool)
			go func() { time.Sleep(time.Duration(k*50) * time.Microsecond); os.Remove(p); done <- true }()
			res := ask(&w, bin, gmps[k%4], files, 10*time.Second)
			<-done
			st.BySource["vanishing-file(impl only)"]++
			if !(res == "ERR" || strings.HasPrefix(res, "D ")) {
				fail("C18", "vanishing-file", "hashing a list with a vanishing file did not return cleanly: "+res)
			}
		}
	}
	bc.Flush()
	bi.Flush()
	bo.Flush()
	fc.Close()
	fi.Close()
	fo.Close()
	sj, _ := json.Marshal(st)
	return os.WriteFile(filepath.Join(*out, fmt.Sprintf("stats.%d.json", *shard)), sj, 0o644)
}
