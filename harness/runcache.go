package main

// Component "runcache": histories of edits, runs (plain / forced / with failing or erroring commands),
// cache removal, kills during a task and torn cache files, applied to a real project directory through
// parser -> file.New -> SpokFile.Run with a recording runner.
//
// case line:  <tasks>|<op>;<op>;...
//   tasks  name:lit.lit:cand.cand+cand.cand;...        (ints; a glob is given by its candidate paths)
//   ops    E<p>=<c|->   edit / create / delete file p
//          X            remove the cache directory
//          T            tear the cache file (truncate to a proper prefix)
//          R<f>:<order>:<beh>:<sorted>   run; order = the (unique) run order, beh = S|F|A per task of the order
//          C<f>:<order>:<beh>:<t>        run killed while task t's command is executing
// impl/model line: one field per op, separated by " ; ":  "<outcome> <disk summary>"
//   outcome: "-" | "ok a=s,b=r ex=a.b" | "err <kind> ex=..." | "crash ex=.."
//   disk:    M | X | G<bits: entry non-empty per task>

import (
	"bufio"
	"encoding/json"
	"flag"
	"fmt"
	"math/rand"
	"os"
	"path/filepath"
	"sort"
	"strconv"
	"strings"

	"github.com/FollowTheProcess/spok/file"
	"github.com/FollowTheProcess/spok/iostream"
	"github.com/FollowTheProcess/spok/logger"
	"github.com/FollowTheProcess/spok/parser"
	"github.com/FollowTheProcess/spok/shell"
)

func init() { commands["runcache"] = runcacheCmd }

// f[1].txt: a literal name made of characters that are special in patterns (a dependency is a pattern only if it contains '*');
// g1.dat is realised as a symbolic link to a file outside the project: a dependency is what opening its path yields
var rcFiles = []string{"f0.txt", "f[1].txt", "g0.dat", "g1.dat"}

type rcGlob struct {
	pat   string
	cands []int
}

var rcGlobs = []rcGlob{{"*.dat", []int{2, 3}}, {"*.txt", []int{0, 1}}, {"g0.*", []int{2}}}

type rcTask struct {
	name  int
	lits  []int
	globs []int // indices into rcGlobs
	deps  []int // task dependencies (names)
}

type rcOp struct {
	kind  byte // E X T R C
	p     int
	c     string // content or "-"
	force bool
	order []int
	beh   string
	sort  bool
	at    int
}

func rcName(i int) string { return string(rune('a' + i)) }

func rcSource(ts []rcTask) string {
	var b strings.Builder
	for _, t := range ts {
		var args []string
		for _, d := range t.deps {
			args = append(args, rcName(d))
		}
		for _, l := range t.lits {
			args = append(args, strconv.Quote(rcFiles[l]))
		}
		for _, g := range t.globs {
			args = append(args, strconv.Quote(rcGlobs[g].pat))
		}
		fmt.Fprintf(&b, "task %s(%s) {\n    run %s\n}\n\n", rcName(t.name), strings.Join(args, ", "), rcName(t.name))
	}
	return b.String()
}

func rcEncodeTasks(ts []rcTask) string {
	var parts []string
	for _, t := range ts {
		var gl []string
		for _, g := range t.globs {
			gl = append(gl, ints(rcGlobs[g].cands))
		}
		parts = append(parts, fmt.Sprintf("%d:%s:%s", t.name, ints(t.lits), strings.Join(gl, "+")))
	}
	return strings.Join(parts, ";")
}

func rcEncodeOp(o rcOp) string {
	f := "0"
	if o.force {
		f = "1"
	}
	switch o.kind {
	case 'E':
		return fmt.Sprintf("E%d=%s", o.p, o.c)
	case 'X', 'T', 'S':
		return string(o.kind)
	case 'R':
		s := "0"
		if o.sort {
			s = "1"
		}
		return fmt.Sprintf("R%s:%s:%s:%s", f, ints(o.order), o.beh, s)
	default:
		return fmt.Sprintf("C%s:%s:%s:%d", f, ints(o.order), o.beh, o.at)
	}
}

// modRunner: a runner whose "commands" may touch the project (for the self-modifying family)
type modRunner struct{ onTask map[string]func() }

func (r *modRunner) Run(cmd string, stream iostream.IOStream, task string, env []string) (shell.Result, error) {
	if f := r.onTask[task]; f != nil {
		f()
	}
	return shell.Result{Cmd: cmd, Status: 0}, nil
}

type crashSentinel struct{}

type rcRunner struct {
	log     []string
	beh     map[string]byte
	crashAt string
	aborted bool // the runner itself returned an error
}

func (r *rcRunner) Run(cmd string, stream iostream.IOStream, task string, env []string) (shell.Result, error) {
	r.log = append(r.log, task)
	if task == r.crashAt {
		panic(crashSentinel{})
	}
	switch r.beh[task] {
	case 'F':
		return shell.Result{Cmd: cmd, Status: 3}, nil
	case 'A':
		r.aborted = true
		return shell.Result{}, fmt.Errorf("runner error in task %s", task)
	}
	return shell.Result{Cmd: cmd, Status: 0}, nil
}

// unique topological order of the closure of a single requested task, or "" if not unique / undefined
func rcOrder(ts []rcTask, req int) []int {
	byName := map[int]rcTask{}
	for _, t := range ts {
		byName[t.name] = t
	}
	var order []int
	seen := map[int]bool{}
	var visit func(n int)
	visit = func(n int) {
		if seen[n] {
			return
		}
		seen[n] = true
		for _, d := range byName[n].deps {
			visit(d)
		}
		order = append(order, n)
	}
	visit(req)
	return order
}

type rcStats struct {
	Cases      int            `json:"cases"`
	Ops        int            `json:"ops"`
	Nontrivial int            `json:"distinct_nontrivial"`
	BySource   map[string]int `json:"by_source"`
	OpKinds    map[string]int `json:"op_kinds"`
	Outcomes   map[string]int `json:"run_outcomes"`
	Skips      int            `json:"task_results_skipped"`
	Ran        int            `json:"task_results_ran"`
	LenHist    map[string]int `json:"history_length_histogram"`
	Shapes     map[string]int `json:"spokfile_shapes"`
	Exhaustive string         `json:"exhaustive_part"`
	Samples    []string       `json:"samples"`
	OracleFail map[string]int `json:"oracle_failures"`
}

func runcacheCmd(args []string) error {
	fs := flag.NewFlagSet("runcache", flag.ExitOnError)
	out := fs.String("out", "", "")
	tier := fs.String("tier", "quick", "")
	seed := fs.Int64("seed", 1, "")
	shard := fs.Int("shard", 0, "")
	nshards := fs.Int("nshards", 1, "")
	fs.Parse(args)
	sfx := fmt.Sprintf(".%d.txt", *shard)
	fc, _ := os.Create(filepath.Join(*out, "cases"+sfx))
	fi, _ := os.Create(filepath.Join(*out, "impl"+sfx))
	fo, _ := os.Create(filepath.Join(*out, "oracle"+sfx))
	bc, bi, bo := bufio.NewWriterSize(fc, 1<<20), bufio.NewWriterSize(fi, 1<<20), bufio.NewWriter(fo)
	st := rcStats{BySource: map[string]int{}, OpKinds: map[string]int{}, Outcomes: map[string]int{}, LenHist: map[string]int{},
		Shapes: map[string]int{}, OracleFail: map[string]int{}}
	r := rand.New(rand.NewSource(*seed*15485863 + int64(*shard)))
	base, err := os.MkdirTemp(*out, "p")
	if err != nil {
		return err
	}
	base, _ = filepath.Abs(base)
	defer os.RemoveAll(base)
	log, _ := logger.NewZapLogger(false)
	seenCase := map[string]bool{}
	caseNo := 0

	runHistory := func(source string, ts []rcTask, ops []rcOp) {
		enc := make([]string, len(ops))
		for i, o := range ops {
			enc[i] = rcEncodeOp(o)
		}
		cs := rcEncodeTasks(ts) + "|" + strings.Join(enc, ";")
		if seenCase[cs] {
			return
		}
		seenCase[cs] = true
		caseNo++
		root := filepath.Join(base, "h"+strconv.Itoa(caseNo))
		os.MkdirAll(root, 0o755)
		defer os.RemoveAll(root)
		// a history with an 'S' operation starts with a spokfile that lacks the last task; 'S' is the user adding it (the cache
		// file, if there is one, then predates the task)
		visible := len(ts)
		for _, o := range ops {
			if o.kind == 'S' {
				visible = len(ts) - 1
			}
		}
		src := rcSource(ts[:visible])
		byName := map[int]rcTask{}
		for _, t := range ts {
			byName[t.name] = t
		}
		cachePath := filepath.Join(root, ".spok", "cache.json")
		content := map[int]string{} // current files
		// reference semantics for the direct oracles
		lastOK := map[int]string{} // task -> inputs fingerprint at last success since cache creation
		hasOK := map[int]bool{}
		crashFree := true
		forcedSeen := false
		inputsNow := func(t rcTask) (string, int) {
			var parts []string
			n := 0
			add := func(p int) {
				if c, ok := content[p]; ok {
					parts = append(parts, fmt.Sprintf("%d=%s", p, c))
					n++
				} else {
					parts = append(parts, fmt.Sprintf("%d=MISSING", p))
				}
			}
			for _, g := range t.globs {
				for _, p := range rcGlobs[g].cands {
					if _, ok := content[p]; ok {
						add(p)
					}
				}
			}
			for _, p := range t.lits {
				add(p)
			}
			return strings.Join(parts, ","), n
		}
		fail := func(prop, detail string) {
			st.OracleFail[prop]++
			fmt.Fprintf(bo, "%s %s %s\n", prop, cs, detail)
		}
		diskSummary := func() string {
			data, err := os.ReadFile(cachePath)
			if err != nil {
				return "M"
			}
			var m map[string]string
			if json.Unmarshal(data, &m) != nil {
				return "X"
			}
			s := "G"
			for _, t := range ts {
				if m[rcName(t.name)] != "" {
					s += "1"
				} else {
					s += "0"
				}
			}
			return s
		}
		var outs []string
		lastFailed := map[int]bool{} // the task's most recent execution did not complete successfully
		nRunOps := 0
		for oi, o := range ops {
			st.Ops++
			st.OpKinds[string(o.kind)]++
			res := "-"
			switch o.kind {
			case 'E':
				p := filepath.Join(root, rcFiles[o.p])
				store := filepath.Join(filepath.Dir(root), "store-"+filepath.Base(root))
				if o.c == "-" {
					os.Remove(p)
					if o.p == 3 {
						os.Remove(filepath.Join(store, rcFiles[o.p]))
					}
					delete(content, o.p)
				} else {
					if o.p == 3 {
						os.MkdirAll(store, 0o755)
						os.WriteFile(filepath.Join(store, rcFiles[o.p]), []byte(o.c), 0o644)
						if _, err := os.Lstat(p); err != nil {
							os.Symlink(filepath.Join(store, rcFiles[o.p]), p)
						}
					} else {
						os.WriteFile(p, []byte(o.c), 0o644)
					}
					content[o.p] = o.c
				}
			case 'S':
				visible = len(ts)
				src = rcSource(ts)
			case 'X':
				os.RemoveAll(filepath.Join(root, ".spok"))
				lastOK, hasOK = map[int]string{}, map[int]bool{}
			case 'T':
				if data, err := os.ReadFile(cachePath); err == nil {
					k := 0
					if len(data) > 1 {
						k = (oi*7 + len(data)/2) % len(data)
					}
					// a torn write is a prefix that is no longer a complete document (whatever layout the cache file has: a prefix
					// that merely lacks trailing white space still is one)
					for k > 0 && json.Valid(data[:k]) {
						k--
					}
					os.WriteFile(cachePath, data[:k], 0o644)
					crashFree = false
				}
			case 'R', 'C':
				nRunOps++
				tree, perr := parser.New(src).Parse()
				if perr != nil {
					res = "err parse"
					break
				}
				sf, nerr := file.New(tree, root, log)
				if nerr != nil {
					res = "err new"
					break
				}
				cacheBad := diskSummary() == "X"
				rr := &rcRunner{beh: map[string]byte{}}
				for i, n := range o.order {
					rr.beh[rcName(n)] = o.beh[i]
				}
				if o.kind == 'C' {
					rr.crashAt = rcName(o.at)
				}
				req := rcName(o.order[len(o.order)-1])
				reqs := []string{req}
				if o.sort {
					reqs = nil
					for _, n := range o.order {
						reqs = append(reqs, rcName(n))
					}
				}
				var results []struct {
					name    string
					skipped bool
				}
				var rerr error
				crashed := false
				func() {
					defer func() {
						if x := recover(); x != nil {
							if _, ok := x.(crashSentinel); ok {
								crashed = true
								return
							}
							panic(x)
						}
					}()
					rs, e := sf.Run(iostream.Null(), rr, o.force, reqs...)
					rerr = e
					for _, x := range rs {
						results = append(results, struct {
							name    string
							skipped bool
						}{x.Task, x.Skipped})
					}
				}()
				ex := append([]string(nil), rr.log...)
				if o.sort {
					sort.Strings(ex)
					sort.Slice(results, func(i, j int) bool { return results[i].name < results[j].name })
				}
				exs := strings.Join(ex, ".")
				missingLit := ""
				for _, n := range o.order {
					for _, l := range byName[n].lits {
						if _, ok := content[l]; !ok && missingLit == "" {
							missingLit = rcName(n) + " depends on " + rcFiles[l]
						}
					}
				}
				if !crashed && rerr == nil && missingLit != "" {
					// C18: a file that cannot be opened yields an error, never a digest - forced or not, the run stops with a message
					fail("C18", fmt.Sprintf("op %d: task %s, which does not exist, yet the run (force=%v) completed without an error (executed: %s)", oi, missingLit, o.force, exs))
				}
				switch {
				case crashed:
					res = "crash ex=" + exs
					crashFree = false
					st.Outcomes["crash"]++
				case rerr != nil:
					// why the run stopped is read off the situation, not off the wording of the message: the runner failed, or the
					// cache file was not a loadable document before the run, or a selected task names a file that is not there
					kind := "other"
					m := rerr.Error()
					missingDep := false
					for _, n := range o.order {
						for _, l := range byName[n].lits {
							if _, ok := content[l]; !ok {
								missingDep = true
							}
						}
					}
					switch {
					case rr.aborted:
						kind = "abort"
					case cacheBad:
						kind = "cache"
					case missingDep:
						kind = "hash"
					}
					res = "err " + kind + " ex=" + exs
					st.Outcomes["err "+kind]++
					if kind == "cache" && len(rr.log) > 0 {
						fail("C10", "a run that reported a cache error had already executed "+exs)
					}
					if crashFree && kind != "hash" && kind != "abort" {
						// nothing was killed and the cache file was never torn: the only legitimate reasons for a run to stop are a
						// dependency file that cannot be read and a failing command
						fail("C02", fmt.Sprintf("op %d: in a crash-free history the run stopped with an error that no command and no dependency file caused, instead of running or skipping its tasks: %s", oi, m))
					}
					if diskSummary() == "X" && kind != "cache" {
						fail("C10", "the cache file is damaged but the run did not stop with a cache error: "+m)
					}
				default:
					var parts []string
					for _, x := range results {
						f := "r"
						if x.skipped {
							f = "s"
						}
						parts = append(parts, x.name+"="+f)
					}
					res = "ok " + strings.Join(parts, ",") + " ex=" + exs
					st.Outcomes["ok"]++
				}
				// ---- direct oracles on this run (reference: skip iff inputs equal those of the last success)
				executed := map[string]bool{}
				for _, n := range rr.log {
					executed[n] = true
				}
				for _, x := range results {
					n := int(x.name[0] - 'a')
					t := byName[n]
					now, nfiles := inputsNow(t)
					if x.skipped {
						st.Skips++
						if !hasOK[n] || lastOK[n] != now {
							prop := "C01"
							if !crashFree {
								prop = "C10"
							}
							fail(prop, fmt.Sprintf("op %d: task %s reported skipped but its inputs (%s) differ from those of its last success (%v %s)", oi, x.name, now, hasOK[n], lastOK[n]))
							if lastFailed[n] {
								fail("C09", fmt.Sprintf("op %d: task %s is reported skipped although its last execution had a failing command and it never succeeded on its current inputs (%s)", oi, x.name, now))
							}
							if forcedSeen {
								fail("C14", fmt.Sprintf("op %d: after a forced run, task %s is skipped although its inputs (%s) differ from those of its last success (%v %s)", oi, x.name, now, hasOK[n], lastOK[n]))
							}
							if o.force {
								fail("C14", fmt.Sprintf("op %d: task %s skipped under --force", oi, x.name))
							}
						}
						if executed[x.name] {
							fail("C01", fmt.Sprintf("op %d: task %s reported skipped but its command ran", oi, x.name))
						}
						if o.force {
							fail("C14", fmt.Sprintf("op %d: task %s reported skipped under --force", oi, x.name))
						}
					} else {
						st.Ran++
						if crashFree && !o.force && nfiles > 0 && hasOK[n] && lastOK[n] == now {
							fail("C02", fmt.Sprintf("op %d: task %s ran although its inputs (%s) equal those of its last success", oi, x.name, now))
						}
						if !executed[x.name] && len(t.lits)+len(t.globs) >= 0 {
							fail("C14", fmt.Sprintf("op %d: task %s reported as run but its command was not executed", oi, x.name))
						}
					}
				}
				if !crashed && rerr == nil && len(results) != len(o.order) {
					fail("C14", fmt.Sprintf("op %d: %d results for %d selected tasks", oi, len(results), len(o.order)))
				}
				if o.force {
					forcedSeen = true
				}
				for i, n := range o.order {
					if executed[rcName(n)] {
						lastFailed[n] = o.beh[i] != 'S'
					}
				}
				// successes recorded by the reference: a task whose command ran with behaviour S completed successfully
				for i, n := range o.order {
					if executed[rcName(n)] && o.beh[i] == 'S' && !(crashed && n == o.at) {
						now, _ := inputsNow(byName[n])
						lastOK[n], hasOK[n] = now, true
					}
				}
			}
			outs = append(outs, res+" "+diskSummary())
		}
		fmt.Fprintln(bc, cs)
		fmt.Fprintln(bi, strings.Join(outs, " ; "))
		st.Cases++
		st.BySource[source]++
		if nRunOps >= 2 {
			st.Nontrivial++
		}
		switch {
		case len(ops) <= 6:
			st.LenHist[strconv.Itoa(len(ops))]++
		case len(ops) <= 12:
			st.LenHist["7-12"]++
		default:
			st.LenHist[">12"]++
		}
		if len(st.Samples) < 5 && nRunOps >= 2 && st.Cases%211 == 1 {
			st.Samples = append(st.Samples, cs+"  =>  "+strings.Join(outs, " ; "))
		}
	}

	// spokfile shapes
	shapes := map[string][]rcTask{
		"a(f0)":                            {{name: 0, lits: []int{0}}},
		"g(*.dat)":                         {{name: 0, globs: []int{0}}},
		"a(f0) b(a,*.dat)":                 {{name: 0, lits: []int{0}}, {name: 1, globs: []int{0}, deps: []int{0}}},
		"a(f0) b(f0,f1) c()":               {{name: 0, lits: []int{0}}, {name: 1, lits: []int{0, 1}}, {name: 2}},
		"a(f0,*.txt) b(*.dat,g0.*)":        {{name: 0, lits: []int{0}, globs: []int{1}}, {name: 1, globs: []int{0, 2}}}, // the same file named twice
		"a(*.txt) b(a) c(b,g0.*,f1)":       {{name: 0, globs: []int{1}}, {name: 1, deps: []int{0}}, {name: 2, deps: []int{1}, globs: []int{2}, lits: []int{1}}},
		"a(f0,*.dat) b(a,f1) c(b)":         {{name: 0, lits: []int{0}, globs: []int{0}}, {name: 1, deps: []int{0}, lits: []int{1}}, {name: 2, deps: []int{1}}}, // a literal + a glob two levels below the request
		"a(*.dat,*.txt) b(a,f0) c(a,b,f0)": {{name: 0, globs: []int{0, 1}}, {name: 1, deps: []int{0}, lits: []int{0}}, {name: 2, deps: []int{0, 1}, lits: []int{0}}},
	}
	shapeNames := make([]string, 0, len(shapes))
	for k := range shapes {
		shapeNames = append(shapeNames, k)
	}
	sort.Strings(shapeNames)

	mkRun := func(ts []rcTask, req int, force bool, beh byte, failAt int) rcOp {
		order := rcOrder(ts, req)
		bs := make([]byte, len(order))
		for i, n := range order {
			bs[i] = 'S'
			if n == failAt {
				bs[i] = beh
			}
		}
		return rcOp{kind: 'R', force: force, order: order, beh: string(bs)}
	}

	// (a) bounded-exhaustive: shape "a(f0) b(a,*.dat)", 2 files x 2 contents, all op sequences to depth 4 (5 in thorough)
	{
		ts := shapes["a(f0) b(a,*.dat)"]
		alpha := []rcOp{
			{kind: 'E', p: 0, c: "1"}, {kind: 'E', p: 0, c: "2"}, {kind: 'E', p: 2, c: "1"}, {kind: 'E', p: 2, c: "-"},
			mkRun(ts, 0, false, 'S', -1), mkRun(ts, 1, false, 'S', -1), mkRun(ts, 1, true, 'S', -1),
			mkRun(ts, 1, false, 'F', 0), mkRun(ts, 1, false, 'F', 1), {kind: 'X'},
		}
		// kill during a / during b, torn cache file
		co := mkRun(ts, 1, false, 'S', -1)
		ca, cb := co, co
		ca.kind, ca.at = 'C', 0
		cb.kind, cb.at = 'C', 1
		alpha = append(alpha, ca, cb, rcOp{kind: 'T'})
		depth := 4
		if *tier == "thorough" {
			depth = 5
		}
		st.Exhaustive = fmt.Sprintf("spokfile a(f0) b(a,*.dat): every sequence of length <= %d over %d operations (edits of 2 files x 2 contents, runs of a / of b incl. dependency, forced, with a failing command in a or in b, cache removal, kill during a / during b, torn cache file), every sequence starting with a file creation", depth, len(alpha))
		idx := 0
		var rec func(prefix []rcOp)
		rec = func(prefix []rcOp) {
			if len(prefix) > 0 {
				idx++
				if idx%*nshards == *shard {
					runHistory("exhaustive", ts, append([]rcOp{{kind: 'E', p: 0, c: "1"}}, prefix...))
				}
			}
			if len(prefix) == depth {
				return
			}
			for _, o := range alpha {
				rec(append(append([]rcOp{}, prefix...), o))
			}
		}
		rec(nil)
	}
	// (a+) the spokfile grows: a(f0) alone is run, then b(a,f0) - same files as a - is added to the spokfile while the cache file
	// already exists; every sequence over runs of b (succeeding, failing, forced, killed) and edits after that
	{
		ts := []rcTask{{name: 0, lits: []int{0}}, {name: 1, lits: []int{0}, deps: []int{0}}}
		alpha := []rcOp{
			{kind: 'E', p: 0, c: "1"}, {kind: 'E', p: 0, c: "2"},
			mkRun(ts, 1, false, 'S', -1), mkRun(ts, 1, false, 'F', 1), mkRun(ts, 1, true, 'S', -1), mkRun(ts, 0, false, 'S', -1),
		}
		cb := mkRun(ts, 1, false, 'S', -1)
		cb.kind, cb.at = 'C', 1
		alpha = append(alpha, cb)
		depth := 4
		st.Exhaustive += fmt.Sprintf("; spokfile a(f0), later also b(a,f0): a is run, then b is added to the spokfile, then every sequence of length <= %d over %d operations (edits, runs of b succeeding / failing / forced / killed, run of a)", depth, len(alpha))
		idx := 0
		var rec func(prefix []rcOp)
		rec = func(prefix []rcOp) {
			if len(prefix) > 0 {
				idx++
				if idx%*nshards == *shard {
					runHistory("exhaustive-spokfile-grows", ts, append([]rcOp{{kind: 'E', p: 0, c: "1"}, mkRun(ts, 0, false, 'S', -1), {kind: 'S'}}, prefix...))
				}
			}
			if len(prefix) == depth {
				return
			}
			for _, o := range alpha {
				rec(append(append([]rcOp{}, prefix...), o))
			}
		}
		rec(nil)
	}
	// (a') bounded-exhaustive on a task whose only dependency is a glob that can stop matching: shape "g(*.dat)"
	{
		ts := shapes["g(*.dat)"]
		alpha := []rcOp{
			{kind: 'E', p: 2, c: "1"}, {kind: 'E', p: 2, c: "-"},
			mkRun(ts, 0, false, 'S', -1), mkRun(ts, 0, true, 'S', -1), mkRun(ts, 0, false, 'F', 0), {kind: 'X'},
		}
		if *tier == "thorough" {
			alpha = append(alpha, rcOp{kind: 'E', p: 2, c: "2"}, mkRun(ts, 0, true, 'F', 0))
		}
		depth := 5
		if *tier == "thorough" {
			depth = 6
		}
		st.Exhaustive += fmt.Sprintf("; spokfile g(*.dat): every sequence of length <= %d over %d operations (create/delete the only matching file, unforced/forced run, run with a failing command, cache removal; thorough adds a content change and a forced failing run)", depth, len(alpha))
		idx := 0
		var rec func(prefix []rcOp)
		rec = func(prefix []rcOp) {
			if len(prefix) > 0 {
				idx++
				if idx%*nshards == *shard {
					runHistory("exhaustive-glob-only", ts, append([]rcOp{{kind: 'E', p: 2, c: "1"}}, prefix...))
				}
			}
			if len(prefix) == depth {
				return
			}
			for _, o := range alpha {
				rec(append(append([]rcOp{}, prefix...), o))
			}
		}
		rec(nil)
	}
	// (a4) a run that stops part-way for a reason other than a kill: a(f0) b(a,f1) where f1 may not exist, so that a run of b
	// executes a and then stops on b's unreadable dependency.  What a's (possibly forced) success left in the cache is then
	// probed by edits and unforced runs.  Prefix: f0 written, a run once; then every sequence to depth 4 over 8 operations.
	{
		ts := []rcTask{{name: 0, lits: []int{0}}, {name: 1, lits: []int{1}, deps: []int{0}}}
		alpha := []rcOp{
			{kind: 'E', p: 0, c: "1"}, {kind: 'E', p: 0, c: "2"}, {kind: 'E', p: 1, c: "1"}, {kind: 'E', p: 1, c: "-"},
			mkRun(ts, 0, false, 'S', -1), mkRun(ts, 1, false, 'S', -1), mkRun(ts, 0, true, 'S', -1), mkRun(ts, 1, true, 'S', -1),
		}
		depth := 4
		if *tier == "thorough" {
			depth = 5
		}
		st.Exhaustive += fmt.Sprintf("; stopped-part-way family: spokfile a(f0) b(a,f1) with f1 absent at first: every sequence of length <= %d over %d operations (two contents of f0, create/delete f1, unforced/forced run of a, of b) after one successful run of a", depth, len(alpha))
		idx := 0
		var rec func(prefix []rcOp)
		rec = func(prefix []rcOp) {
			if len(prefix) > 0 {
				idx++
				if idx%*nshards == *shard {
					runHistory("exhaustive-stopped-part-way", ts, append([]rcOp{{kind: 'E', p: 0, c: "1"}, mkRun(ts, 0, false, 'S', -1)}, prefix...))
				}
			}
			if len(prefix) == depth {
				return
			}
			for _, o := range alpha {
				rec(append(append([]rcOp{}, prefix...), o))
			}
		}
		rec(nil)
	}
	// (a'') bounded-exhaustive around a kill in the middle of a multi-task run: shape "a(f0) b(a,*.dat)", the five operations
	// that matter for "what did the tasks completed before the kill leave on disk", to depth 5
	{
		ts := shapes["a(f0) b(a,*.dat)"]
		cb := mkRun(ts, 1, false, 'S', -1)
		cb.kind, cb.at = 'C', 1
		alpha := []rcOp{{kind: 'E', p: 0, c: "1"}, {kind: 'E', p: 0, c: "2"}, mkRun(ts, 1, false, 'S', -1), cb, mkRun(ts, 0, false, 'S', -1)}
		depth := 5
		if *tier == "thorough" {
			alpha = append(alpha, mkRun(ts, 1, true, 'S', -1), rcOp{kind: 'X'})
			depth = 6
		}
		st.Exhaustive += fmt.Sprintf("; kill family: every sequence of length <= %d over %d operations (two contents of a's file, run b with its dependency a, the same run killed during b, run a alone)", depth, len(alpha))
		idx := 0
		var rec func(prefix []rcOp)
		rec = func(prefix []rcOp) {
			if len(prefix) > 0 {
				idx++
				if idx%*nshards == *shard {
					// both tasks have files from the start (b's glob matches g0.dat), so both get a write-ahead entry
					runHistory("exhaustive-kill-mid-run", ts, append([]rcOp{{kind: 'E', p: 0, c: "1"}, {kind: 'E', p: 2, c: "1"}}, prefix...))
				}
			}
			if len(prefix) == depth {
				return
			}
			for _, o := range alpha {
				rec(append(append([]rcOp{}, prefix...), o))
			}
		}
		rec(nil)
	}
	// (a*) implementation only: a task whose command rewrites a file that the NEXT task of the same run depends on (a formatter
	// before a linter).  The later task ran on the rewritten file; when the file is put back as it was before the run, that task's
	// inputs are not those of its last success: it must run.  (What the rewriting task itself should then do is not judged.)
	if *shard == 0 {
		for variant := 0; variant < 4; variant++ {
			root := filepath.Join(base, fmt.Sprintf("selfmod%d", variant))
			os.MkdirAll(root, 0o755)
			src := "task a(\"f0.txt\") {\n    run a\n}\n\ntask b(a, \"f0.txt\") {\n    run b\n}\n"
			if variant%2 == 1 {
				src = "task a(\"*.txt\") {\n    run a\n}\n\ntask b(a, \"*.txt\") {\n    run b\n}\n"
			}
			f0 := filepath.Join(root, "f0.txt")
			os.WriteFile(f0, []byte("before"), 0o644)
			runB := func(rewrite bool) (bSkipped bool, err error) {
				tree, perr := parser.New(src).Parse()
				if perr != nil {
					return false, perr
				}
				sf, nerr := file.New(tree, root, log)
				if nerr != nil {
					return false, nerr
				}
				rr := &modRunner{onTask: map[string]func(){}}
				if rewrite {
					rr.onTask["a"] = func() { os.WriteFile(f0, []byte("rewritten by a"), 0o644) }
				}
				rs, rerr := sf.Run(iostream.Null(), rr, variant >= 2, "b")
				for _, x := range rs {
					if x.Task == "b" {
						bSkipped = x.Skipped
					}
				}
				return bSkipped, rerr
			}
			if _, err := runB(true); err != nil {
				continue
			}
			// nothing is touched from outside: a (an idempotent rewriter) may well run again, but b last succeeded on exactly
			// the file as it is now, so an unforced second run has to skip it
			if variant < 2 {
				if skipped, err := runB(true); err == nil && !skipped {
					st.OracleFail["C02"]++
					fmt.Fprintf(bo, "C02 selfmod-%d task b ran again although it last succeeded on exactly the current content of its dependency (rewritten by task a earlier in that same run) and nothing changed since\n", variant)
				}
			}
			os.WriteFile(f0, []byte("before"), 0o644) // back to what it was before the run (b last succeeded on "rewritten by a")
			st.BySource["task-rewrites-a-later-task's-input(impl only)"]++
			tree, _ := parser.New(src).Parse()
			sf, _ := file.New(tree, root, log)
			rs, rerr := sf.Run(iostream.Null(), &modRunner{onTask: map[string]func(){}}, false, "b")
			for _, x := range rs {
				if x.Task == "b" && x.Skipped && rerr == nil {
					st.OracleFail["C01"]++
					fmt.Fprintf(bo, "C01 selfmod-%d task b reported skipped, but it last succeeded on the file as task a had rewritten it in that run, and the file has been put back since\n", variant)
					if variant >= 2 {
						st.OracleFail["C14"]++
						fmt.Fprintf(bo, "C14 selfmod-%d after a forced run, task b is skipped although its dependency differs from what it last (forcedly) succeeded on: task a rewrote it during that run and it has been put back since\n", variant)
					}
				}
			}
			os.RemoveAll(root)
		}
	}
	// (b) random histories to depth 25 over all shapes
	nr := 3000
	if *tier == "thorough" {
		nr = 60000
	}
	for k := 0; k < nr / *nshards; k++ {
		sn := shapeNames[r.Intn(len(shapeNames))]
		ts := shapes[sn]
		st.Shapes[sn]++
		n := 3 + r.Intn(23)
		var ops []rcOp
		withCrash := r.Intn(3) == 0
		for i := 0; i < n; i++ {
			switch x := r.Intn(20); {
			case x < 7:
				c := strconv.Itoa(1 + r.Intn(3))
				if r.Intn(5) == 0 {
					c = "-"
				}
				ops = append(ops, rcOp{kind: 'E', p: r.Intn(len(rcFiles)), c: c})
			case x == 7:
				ops = append(ops, rcOp{kind: 'X'})
			case x == 8 && withCrash:
				ops = append(ops, rcOp{kind: 'T'})
			case x == 9 && withCrash:
				o := mkRun(ts, ts[r.Intn(len(ts))].name, r.Intn(4) == 0, 'S', -1)
				o.kind, o.at = 'C', o.order[r.Intn(len(o.order))]
				ops = append(ops, o)
			case x == 10 && len(ts) >= 2:
				// several independent requests at once: compared as sets (the order among them is Go's map order)
				var order []int
				indep := true
				for _, t := range ts {
					if len(t.deps) > 0 {
						indep = false
					}
					order = append(order, t.name)
				}
				if !indep {
					continue
				}
				bs := make([]byte, len(order))
				for i := range bs {
					bs[i] = "SSSF"[r.Intn(4)]
				}
				// a missing literal file would abort the run at an order-dependent point: only when all literals exist
				ops = append(ops, rcOp{kind: 'R', force: r.Intn(4) == 0, order: order, beh: string(bs), sort: true})
			default:
				beh := byte('S')
				failAt := -1
				if r.Intn(3) == 0 {
					beh = "FFA"[r.Intn(3)]
					failAt = ts[r.Intn(len(ts))].name
				}
				ops = append(ops, mkRun(ts, ts[r.Intn(len(ts))].name, r.Intn(5) == 0, beh, failAt))
			}
		}
		// multi-request runs must not be able to abort: drop them if a literal of the shape is missing at that point
		content := map[int]bool{}
		var filtered []rcOp
		for _, o := range ops {
			if o.kind == 'E' {
				if o.c == "-" {
					delete(content, o.p)
				} else {
					content[o.p] = true
				}
			}
			if o.kind == 'R' && o.sort {
				okAll := true
				for _, t := range ts {
					for _, l := range t.lits {
						if !content[l] {
							okAll = false
						}
					}
				}
				if !okAll {
					continue
				}
			}
			filtered = append(filtered, o)
		}
		src := "random"
		if withCrash {
			src = "random-with-kills-and-torn-cache"
		}
		runHistory(src, ts, filtered)
	}
	bc.Flush()
	bi.Flush()
	bo.Flush()
	fc.Close()
	fi.Close()
	fo.Close()
	sj, _ := json.Marshal(st)
	return os.WriteFile(filepath.Join(*out, fmt.Sprintf("stats.%d.json", *shard)), sj, 0o644)
}
