package main

// Component "find": file.Find on real directory chains (C17).
// case line:  <dir>:<name>/<k>,...;<dir>:...|<start>|<stop>      paths are dot-joined segment numbers below the base ("" = base)
// impl line:  F <dir> | N | E | HANG

import (
	"bufio"
	"bytes"
	"encoding/json"
	"errors"
	"flag"
	"fmt"
	"io/fs"
	"os"
	"os/exec"
	"path/filepath"
	"strconv"
	"strings"
	"time"

	"github.com/FollowTheProcess/spok/file"
	"github.com/FollowTheProcess/spok/logger"
)

func init() { commands["find"] = findCmd }

var findNames = map[int]string{0: "spokfile", 1: "aaa.txt", 2: "zzz.txt", 11: "d1", 12: "d2", 13: "d3", 14: "d4", 20: "other", 21: "x", 22: "d1x"}

type findStats struct {
	Cases      int            `json:"cases"`
	Nontrivial int            `json:"distinct_nontrivial"`
	Trees      int            `json:"trees"`
	Outcomes   map[string]int `json:"outcomes"`
	Depths     map[string]int `json:"chain_depth"`
	StopKinds  map[string]int `json:"stop_kinds"`
	Exhaustive string         `json:"exhaustive_part"`
	Samples    []string       `json:"samples"`
	OracleFail map[string]int `json:"oracle_failures"`
	CLIProbes  int            `json:"command_line_probes"`
}

// isPathError: the error comes from the file system (a directory that cannot be read), not from the search ending
func isPathError(err error) bool {
	var pe *fs.PathError
	return errors.As(err, &pe)
}

func segPath(base string, segs []int) string {
	p := base
	for _, s := range segs {
		p = filepath.Join(p, findNames[s])
	}
	return p
}

func findCmd(args []string) error {
	fls := flag.NewFlagSet("find", flag.ExitOnError)
	out := fls.String("out", "", "")
	tier := fls.String("tier", "quick", "")
	_ = fls.Int64("seed", 1, "")
	shard := fls.Int("shard", 0, "")
	nshards := fls.Int("nshards", 1, "")
	spokBin := fls.String("spok", "", "path to the built spok binary (for the command-line probes)")
	fls.Parse(args)
	sfx := fmt.Sprintf(".%d.txt", *shard)
	fc, _ := os.Create(filepath.Join(*out, "cases"+sfx))
	fi, _ := os.Create(filepath.Join(*out, "impl"+sfx))
	fo, _ := os.Create(filepath.Join(*out, "oracle"+sfx))
	bc, bi, bo := bufio.NewWriter(fc), bufio.NewWriter(fi), bufio.NewWriter(fo)
	st := findStats{Outcomes: map[string]int{}, Depths: map[string]int{}, StopKinds: map[string]int{}, OracleFail: map[string]int{}}
	tmp, err := os.MkdirTemp(*out, "f")
	if err != nil {
		return err
	}
	tmp, _ = filepath.Abs(tmp)
	defer os.RemoveAll(tmp)
	log, _ := logger.NewZapLogger(false)
	// what a level may hold besides the next directory of the chain
	contents := [][][2]int{
		{},
		{{1, 'f'}},
		{{2, 'f'}},
		{{0, 'f'}},
		{{1, 'f'}, {0, 'f'}, {2, 'f'}},
		{{1, 'f'}, {0, 'd'}},
	}
	maxDepth := 3
	if *tier == "thorough" {
		maxDepth = 4
	}
	st.Exhaustive = fmt.Sprintf("every chain of depth 0..%d whose levels independently hold one of %d contents (nothing, a file sorting before, a file sorting after, a regular spokfile, spokfile between other files, a directory named spokfile next to a file) x every start level x stop in {every level, an existing unrelated directory, a missing unrelated directory, a sibling directory whose name extends a chain directory's name, a missing directory below that}", maxDepth, len(contents))
	treeNo := 0
	hangs := 0
	for depth := 0; depth <= maxDepth && hangs < 3; depth++ {
		total := 1
		for i := 0; i <= depth; i++ {
			total *= len(contents)
		}
		for code := 0; code < total && hangs < 3; code++ {
			treeNo++
			if treeNo%*nshards != *shard {
				continue
			}
			st.Trees++
			base := filepath.Join(tmp, "t"+strconv.Itoa(treeNo))
			os.MkdirAll(base, 0o755)
			// level k directory = base/d1/../dk ; "other" is an unrelated sibling of d1 (when depth >= 1) or child of base
			chain := [][]int{{}}
			for k := 1; k <= depth; k++ {
				chain = append(chain, append(append([]int{}, chain[k-1]...), 10+k))
			}
			var dirEnc []string
			c := code
			hasSpok := make([]bool, depth+1)
			for k := 0; k <= depth; k++ {
				sel := contents[c%len(contents)]
				c /= len(contents)
				dir := segPath(base, chain[k])
				os.MkdirAll(dir, 0o755)
				var ents []string
				for _, e := range sel {
					p := filepath.Join(dir, findNames[e[0]])
					if e[1] == 'f' {
						os.WriteFile(p, []byte("x"), 0o644)
						if e[0] == 0 {
							hasSpok[k] = true
							// a loadable spokfile whose only task tells the levels apart (for the command-line probes)
							os.WriteFile(p, []byte(fmt.Sprintf("task lvl%c() {\n    echo %d\n}\n", 'a'+k, k)), 0o644)
						}
					} else {
						os.MkdirAll(p, 0o755)
					}
					ents = append(ents, fmt.Sprintf("%d/%c", e[0], e[1]))
				}
				if k < depth {
					ents = append(ents, fmt.Sprintf("%d/d", 10+k+1))
				}
				if k == 0 {
					ents = append(ents, "20/d", "22/d")
				}
				dirEnc = append(dirEnc, ints(chain[k])+":"+strings.Join(ents, ","))
			}
			os.MkdirAll(filepath.Join(base, "other"), 0o755)
			os.MkdirAll(filepath.Join(base, "d1x"), 0o755) // a sibling whose path has base/d1 as a string prefix without being below it
			dirEnc = append(dirEnc, "20:", "22:")
			stops := append([][]int{}, chain...)
			stops = append(stops, []int{20}, []int{20, 21}, []int{22}, []int{22, 21})
			for sl := 0; sl <= depth && hangs < 3; sl++ {
				for si, stop := range stops {
					if hangs >= 3 {
						break // enough evidence; every further hang would burn another core
					}
					start := chain[sl]
					startP, stopP := segPath(base, start), segPath(base, stop)
					resCh := make(chan string, 1)
					go func() {
						p, err := file.Find(log, startP, stopP)
						switch {
						case err == nil:
							rel, _ := filepath.Rel(base, filepath.Dir(p))
							if filepath.Base(p) != "spokfile" {
								rel = "BADNAME:" + rel
							}
							resCh <- "F " + rel
						case !isPathError(err):
							resCh <- "N" // whatever the wording: the search ended without a spokfile
						default:
							resCh <- "E"
						}
					}()
					res := "HANG"
					select {
					case res = <-resCh:
					case <-time.After(3 * time.Second):
						hangs++ // the goroutine cannot be stopped and keeps a core busy
					}
					// map the found directory back to segment numbers
					if strings.HasPrefix(res, "F ") {
						rel := strings.TrimPrefix(res, "F ")
						var segs []int
						if rel != "." {
							for _, part := range strings.Split(rel, string(filepath.Separator)) {
								for n, name := range findNames {
									if name == part {
										segs = append(segs, n)
									}
								}
							}
						}
						res = "F " + ints(segs)
					}
					cs := fmt.Sprintf("%s|%s|%s", strings.Join(dirEnc, ";"), ints(start), ints(stop))
					fmt.Fprintln(bc, cs)
					fmt.Fprintln(bi, res)
					st.Cases++
					st.Outcomes[strings.SplitN(res, " ", 2)[0]]++
					st.Depths[strconv.Itoa(depth)]++
					kind := "on-chain"
					if si > depth {
						kind = "unrelated"
					} else if si > sl {
						kind = "below-start"
					}
					st.StopKinds[kind]++
					if depth >= 2 {
						st.Nontrivial++
					}
					// direct oracle: nearest level <= start level holding a regular spokfile whose directory is not a proper ancestor of stop
					want := "N"
					for k := sl; k >= 0; k-- {
						dirP := segPath(base, chain[k])
						rel, err := filepath.Rel(dirP, stopP)
						above := err == nil && rel != "." && !strings.HasPrefix(rel, "..")
						if above {
							break
						}
						if hasSpok[k] {
							want = "F " + ints(chain[k])
							break
						}
						if dirP == stopP {
							break
						}
					}
					if res != want {
						st.OracleFail["C17"]++
						fmt.Fprintf(bo, "C17 %s Find(start=%s, stop=%s) returned %q, expected %q\n", cs, startP[len(base):], stopP[len(base):], res, want)
					}
					// the same question asked of the command line: `spok --show` run in the start directory with HOME = the stop
					// directory must load that very spokfile, or fail when there is none (one case in six)
					if *spokBin != "" && st.Cases%6 == 0 && res != "HANG" {
						cmd := exec.Command(*spokBin, "--show")
						cmd.Dir = startP
						cmd.Env = []string{"HOME=" + stopP, "PATH=/usr/bin:/bin", "NO_COLOR=1"}
						var so, se bytes.Buffer
						cmd.Stdout, cmd.Stderr = &so, &se
						done := make(chan error, 1)
						if err := cmd.Start(); err == nil {
							go func() { done <- cmd.Wait() }()
							cli := "HANG"
							select {
							case err := <-done:
								cli = "N"
								if err == nil {
									cli = "F ?"
									for k := 0; k <= depth; k++ {
										if strings.Contains(so.String(), fmt.Sprintf("lvl%c", 'a'+k)) {
											cli = "F " + ints(chain[k])
										}
									}
								}
							case <-time.After(5 * time.Second):
								cmd.Process.Kill()
							}
							st.CLIProbes++
							if cli != want {
								st.OracleFail["C17"]++
								fmt.Fprintf(bo, "C17 %s `spok --show` run in %s with HOME=%s: %q, expected %q (stderr %q)\n", cs, startP[len(base):], stopP[len(base):], cli, want, strings.TrimSpace(se.String()))
							}
						}
					}
					if len(st.Samples) < 4 && depth == 2 && st.Cases%97 == 5 {
						st.Samples = append(st.Samples, cs+" => "+res)
					}
				}
			}
			// relative paths (implementation only): a relative start is looked at on its own (its parent is itself), a relative
			// stop never matches, so the climb ends at the file-system root; either way Find must return
			if depth >= 1 && treeNo%7 == 0 && hangs < 3 {
				cwd0, _ := os.Getwd()
				for sl := 0; sl <= depth && hangs < 3; sl++ {
					startP := segPath(base, chain[sl])
					for variant := 0; variant < 2 && hangs < 3; variant++ {
						var a, b, want string
						if variant == 0 {
							os.Chdir(startP)
							a, b = ".", segPath(base, chain[0])
							want = "N"
							if hasSpok[sl] {
								want = "F " + startP
							}
						} else {
							a, b = startP, "relative-stop"
							want = "N"
							for k := sl; k >= 0; k-- {
								if hasSpok[k] {
									want = "F " + segPath(base, chain[k])
									break
								}
							}
						}
						resCh := make(chan string, 1)
						go func() {
							p, err := file.Find(log, a, b)
							switch {
							case err == nil:
								resCh <- "F " + filepath.Dir(p)
							case !isPathError(err):
								resCh <- "N"
							default:
								resCh <- "E"
							}
						}()
						res := "HANG"
						select {
						case res = <-resCh:
						case <-time.After(3 * time.Second):
							hangs++
						}
						os.Chdir(cwd0)
						st.StopKinds["relative-start-or-stop(impl only)"]++
						if res != want {
							st.OracleFail["C17"]++
							fmt.Fprintf(bo, "C17 %s|rel%d|%d Find(start=%q, stop=%q) from a tree with a spokfile at levels %v returned %q, expected %q\n", strings.Join(dirEnc, ";"), variant, sl, a, b, hasSpok, strings.TrimPrefix(res, base), strings.TrimPrefix(want, base))
						}
					}
				}
			}
			os.RemoveAll(base)
		}
	}
	// deep chains (implementation only): a spokfile 30-60 levels above the start directory is still the nearest one
	if *shard == 0 && hangs < 3 {
		base := filepath.Join(tmp, "deep")
		for _, top := range []int{0, 3} {
			os.RemoveAll(base)
			dirs := []string{base}
			for k := 1; k <= 60; k++ {
				dirs = append(dirs, filepath.Join(dirs[k-1], "n"))
			}
			os.MkdirAll(dirs[60], 0o755)
			os.WriteFile(filepath.Join(dirs[top], "spokfile"), []byte("task deep() {\n}\n"), 0o644)
			for _, sl := range []int{top + 30, top + 31, top + 32, top + 33, 60} {
				resCh := make(chan string, 1)
				go func() {
					p, err := file.Find(log, dirs[sl], base)
					if err != nil {
						resCh <- "N"
					} else {
						resCh <- "F " + filepath.Dir(p)
					}
				}()
				res := "HANG"
				select {
				case res = <-resCh:
				case <-time.After(5 * time.Second):
					hangs++
				}
				st.StopKinds["deep-chain(impl only)"]++
				if want := "F " + dirs[top]; res != want {
					st.OracleFail["C17"]++
					fmt.Fprintf(bo, "C17 deep-chain:%d:%d Find from %d levels below the only spokfile (stop at the top of the chain) returned %q, expected the spokfile at level %d\n", top, sl, sl-top, strings.TrimPrefix(res, base), top)
				}
			}
		}
		os.RemoveAll(base)
	}
	// crowded directories (implementation only): the spokfile is one entry among thousands, created first, in the middle or last
	if *shard == 1%*nshards && hangs < 3 {
		base := filepath.Join(tmp, "crowded")
		// (the order in which a directory is listed depends on the names in it, not on when they were created: six sets of names)
		for vi, when := range []int{0, 2500, 4999, 1, 4000, 3} {
			os.RemoveAll(base)
			start := filepath.Join(base, "proj", "sub")
			os.MkdirAll(start, 0o755)
			for i := 0; i < 5000; i++ {
				if i == when {
					os.WriteFile(filepath.Join(base, "proj", "spokfile"), []byte("task crowded() {\n}\n"), 0o644)
				}
				os.WriteFile(filepath.Join(base, "proj", fmt.Sprintf("%c%d-filler-%04d.txt", 'a'+vi*3, vi, (i*7919)%5000)), nil, 0o644)
			}
			resCh := make(chan string, 1)
			go func() {
				p, err := file.Find(log, start, base)
				if err != nil {
					resCh <- "N"
				} else {
					resCh <- "F " + filepath.Dir(p)
				}
			}()
			res := "HANG"
			select {
			case res = <-resCh:
			case <-time.After(10 * time.Second):
				hangs++
			}
			st.StopKinds["crowded-directory(impl only)"]++
			if want := "F " + filepath.Join(base, "proj"); res != want {
				st.OracleFail["C17"]++
				fmt.Fprintf(bo, "C17 crowded-directory:%d Find from proj/sub, where proj holds a spokfile (created as entry %d) among 5000 other files, returned %q\n", when, when, strings.TrimPrefix(res, base))
			}
		}
		os.RemoveAll(base)
	}
	bc.Flush()
	bi.Flush()
	bo.Flush()
	fc.Close()
	fi.Close()
	fo.Close()
	sj, _ := json.Marshal(st)
	return os.WriteFile(filepath.Join(*out, fmt.Sprintf("stats.%d.json", *shard)), sj, 0o644)
}
