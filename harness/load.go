package main

// Component "load": parser -> file.New / task.New on generated spokfiles: how variables are evaluated in file order and how a
// task's dependencies, outputs and commands are sorted into task names, file paths, glob patterns and expanded commands.
//
// case line:   <hex source>|<hex root>|<hex cwd>
// impl/model:  ERR   or   V <name>=<hex>,... ## T <name>|<doc>|<taskdeps>|<filedeps>|<globdeps>|<cmds>|<named>|<fileouts>|<globouts> ## T ...
//              (variables and tasks sorted by name, list items hex joined by ',')
// oracle:      the same dump computed by a reference written for the harness from the structure that was generated; a difference
//              is reported under the property the differing field belongs to (task dependencies C03, file/glob dependencies C05,
//              outputs C12, commands and variables C13)

import (
	"bufio"
	"encoding/json"
	"flag"
	"fmt"
	"math/rand"
	"os"
	"path/filepath"
	"sort"
	"strings"

	"github.com/FollowTheProcess/spok/file"
	"github.com/FollowTheProcess/spok/logger"
	"github.com/FollowTheProcess/spok/parser"
)

func init() { commands["load"] = loadCmd }

type ldArg struct {
	str bool
	s   string
}
type ldVar struct {
	name string
	kind byte // S string, J join, E exec, I ident (bad), U unknown builtin, A join with an identifier argument
	val  string
	args []string
}
type ldTask struct {
	doc, name  string
	deps, outs []ldArg
	cmds       []string
}
type ldStmt struct {
	v *ldVar
	t *ldTask
}

type loadStats struct {
	Cases      int            `json:"cases"`
	Nontrivial int            `json:"distinct_nontrivial"`
	Outcomes   map[string]int `json:"outcomes"`
	Features   map[string]int `json:"features"`
	Samples    []string       `json:"samples"`
	OracleFail map[string]int `json:"oracle_failures"`
}

var ldNames = []string{"a", "b", "docs", "build", "clean", "default", "A", "SRC", "lint"}
var ldVarNames = []string{"A", "B", "SRC", "docs", "build", "OUT", "UNDEFINED_LATER", "Environ", "String"}
var ldStrings = []string{"file.go", "src/*.go", "**/*.ts", "*.ts", "*.tsx", "pages/[id].tsx", "data?.csv", "conf{prod}.yml", "./x.txt", "../up.txt", "dir/", "",
	"a b.txt", ".hidden/*.json", "./src/*", "**", "*", "docs", "build/", "x/../y.txt", "//abs//p", "é.txt", "*.{js,ts}", "[*]"}
var ldCmds = []string{"ls", "echo {{.A}}", "echo {{ .B }} and $A", "echo {{.UNDEFINED_LATER}}", "go build -o {{.OUT}} ./...", "echo '{{.SRC}}' > {{.docs}}", "echo 100%", "echo {{.A}}{{.B}}", "echo {{.Environ}} {{.String}}"}

func hxs(l []string) string {
	h := make([]string, len(l))
	for i, s := range l {
		h[i] = hx(s)
	}
	return strings.Join(h, ",")
}

func (a ldArg) src() string {
	if a.str {
		return `"` + a.s + `"`
	}
	return a.s
}

func ldSource(stmts []ldStmt) string {
	var b strings.Builder
	for _, s := range stmts {
		if s.v != nil {
			v := s.v
			switch v.kind {
			case 'S':
				fmt.Fprintf(&b, "%s := \"%s\"\n", v.name, v.val)
			case 'I':
				fmt.Fprintf(&b, "%s := %s\n", v.name, v.val)
			default:
				fn := map[byte]string{'J': "join", 'E': "exec", 'U': "nope", 'A': "join"}[v.kind]
				var as []string
				for i, a := range v.args {
					if v.kind == 'A' && i == 0 {
						as = append(as, a)
					} else {
						as = append(as, `"`+a+`"`)
					}
				}
				fmt.Fprintf(&b, "%s := %s(%s)\n", v.name, fn, strings.Join(as, ", "))
			}
			continue
		}
		t := s.t
		if t.doc != "" {
			fmt.Fprintf(&b, "#%s\n", t.doc)
		}
		var ds, os_ []string
		for _, d := range t.deps {
			ds = append(ds, d.src())
		}
		for _, o := range t.outs {
			os_ = append(os_, o.src())
		}
		fmt.Fprintf(&b, "task %s(%s)", t.name, strings.Join(ds, ", "))
		switch len(os_) {
		case 0:
		case 1:
			fmt.Fprintf(&b, " -> %s", os_[0])
		default:
			fmt.Fprintf(&b, " -> (%s)", strings.Join(os_, ", "))
		}
		b.WriteString(" {\n")
		for _, c := range t.cmds {
			fmt.Fprintf(&b, "    %s\n", c)
		}
		b.WriteString("}\n\n")
	}
	return b.String()
}

// ldExpand: textual substitution of {{.NAME}} / {{ .NAME }} (the only template actions the generator writes)
func ldExpand(cmd string, vars map[string]string) string {
	var b strings.Builder
	for {
		i := strings.Index(cmd, "{{")
		if i < 0 {
			b.WriteString(cmd)
			return b.String()
		}
		j := strings.Index(cmd[i:], "}}")
		name := strings.TrimPrefix(strings.TrimSpace(cmd[i+2:i+j]), ".")
		b.WriteString(cmd[:i])
		if v, ok := vars[name]; ok {
			b.WriteString(v)
		} else {
			b.WriteString("<no value>")
		}
		cmd = cmd[i+j+2:]
	}
}

// ldReference: what loading must give, from the generated structure
func ldReference(stmts []ldStmt, root, cwd string) string {
	vars := map[string]string{}
	type rt struct {
		doc, name                                               string
		taskdeps, filedeps, globdeps, cmds, named, fouts, gouts []string
	}
	tasks := map[string]rt{}
	for _, s := range stmts {
		if s.v != nil {
			v := s.v
			switch v.kind {
			case 'S':
				vars[v.name] = v.val
			case 'J':
				j := filepath.Join(v.args...)
				if !filepath.IsAbs(j) {
					j = filepath.Join(cwd, j)
				}
				vars[v.name] = filepath.Clean(j)
			case 'E':
				if len(v.args) != 1 || !strings.HasPrefix(v.args[0], "echo ") {
					return "ERR"
				}
				vars[v.name] = strings.TrimSpace(strings.TrimPrefix(v.args[0], "echo "))
			default:
				return "ERR"
			}
			continue
		}
		t := s.t
		if _, dup := tasks[t.name]; dup {
			return "ERR"
		}
		r := rt{doc: strings.TrimSpace(t.doc), name: t.name}
		for _, d := range t.deps {
			switch {
			case !d.str:
				r.taskdeps = append(r.taskdeps, d.s)
			case strings.Contains(d.s, "*"):
				r.globdeps = append(r.globdeps, d.s)
			default:
				r.filedeps = append(r.filedeps, filepath.Join(root, d.s))
			}
		}
		for _, o := range t.outs {
			switch {
			case !o.str:
				r.named = append(r.named, o.s)
			case strings.Contains(o.s, "*"):
				r.gouts = append(r.gouts, o.s)
			default:
				r.fouts = append(r.fouts, filepath.Join(root, o.s))
			}
		}
		for _, c := range t.cmds {
			r.cmds = append(r.cmds, ldExpand(c, vars))
		}
		tasks[t.name] = r
	}
	var vn, tn []string
	for n := range vars {
		vn = append(vn, n)
	}
	for n := range tasks {
		tn = append(tn, n)
	}
	sort.Strings(vn)
	sort.Strings(tn)
	var vs []string
	for _, n := range vn {
		vs = append(vs, n+"="+hx(vars[n]))
	}
	out := "V " + strings.Join(vs, ",")
	for _, n := range tn {
		t := tasks[n]
		out += " ## T " + strings.Join([]string{hx(t.name), hx(t.doc), hxs(t.taskdeps), hxs(t.filedeps), hxs(t.globdeps), hxs(t.cmds), hxs(t.named), hxs(t.fouts), hxs(t.gouts)}, "|")
	}
	return out
}

func ldDump(sf *file.SpokFile) string {
	var vn, tn []string
	for n := range sf.Vars {
		vn = append(vn, n)
	}
	for n := range sf.Tasks {
		tn = append(tn, n)
	}
	sort.Strings(vn)
	sort.Strings(tn)
	var vs []string
	for _, n := range vn {
		vs = append(vs, n+"="+hx(sf.Vars[n]))
	}
	out := "V " + strings.Join(vs, ",")
	for _, n := range tn {
		t := sf.Tasks[n]
		out += " ## T " + strings.Join([]string{hx(t.Name), hx(t.Doc), hxs(t.TaskDependencies), hxs(t.FileDependencies), hxs(t.GlobDependencies), hxs(t.Commands), hxs(t.NamedOutputs), hxs(t.FileOutputs), hxs(t.GlobOutputs)}, "|")
	}
	return out
}

func loadCmd(args []string) error {
	fs := flag.NewFlagSet("load", flag.ExitOnError)
	out := fs.String("out", "", "")
	tier := fs.String("tier", "quick", "")
	seed := fs.Int64("seed", 1, "")
	shard := fs.Int("shard", 0, "")
	nshards := fs.Int("nshards", 1, "")
	fs.Parse(args)
	sfx := fmt.Sprintf(".%d.txt", *shard)
	fc, _ := os.Create(filepath.Join(*out, "cases"+sfx))
	fi, _ := os.Create(filepath.Join(*out, "impl"+sfx))
	fo, _ := os.Create(filepath.Join(*out, "oracle"+sfx))
	bc, bi, bo := bufio.NewWriterSize(fc, 1<<20), bufio.NewWriterSize(fi, 1<<20), bufio.NewWriter(fo)
	st := loadStats{Outcomes: map[string]int{}, Features: map[string]int{}, OracleFail: map[string]int{}}
	r := rand.New(rand.NewSource(*seed*15485863 + int64(*shard)))
	log, _ := logger.NewZapLogger(false)
	n := 24000
	if *tier == "thorough" {
		n = 400000
	}
	cwd, _ := os.Getwd()
	root := "/proj/root dir"
	pick := func(l []string) string { return l[r.Intn(len(l))] }
	arg := func() ldArg {
		if r.Intn(3) == 0 {
			return ldArg{false, pick(ldNames)}
		}
		return ldArg{true, pick(ldStrings)}
	}
	for k := 0; k < n / *nshards; k++ {
		var stmts []ldStmt
		ns := 1 + r.Intn(6)
		for i := 0; i < ns; i++ {
			if r.Intn(5) < 2 {
				v := &ldVar{name: pick(ldVarNames), kind: 'S', val: pick([]string{"v1", "out.bin", "src/*.go", "", "two words", "100%", "docs", "x=y"})}
				switch x := r.Intn(40); {
				case x < 6:
					v.kind, v.args = 'J', []string{pick([]string{"p", "..", "/abs", "a/b", ""}), pick([]string{"q", "..", "c/../d", "."})}[:1+r.Intn(2)]
				case x < 9:
					v.kind, v.args = 'E', []string{"echo " + pick([]string{"hi", "two words", " padded "})}
				case x == 9:
					v.kind, v.args = 'E', []string{"exit 3"}
				case x == 10:
					v.kind, v.val = 'I', pick(ldVarNames)
				case x == 11:
					v.kind, v.args = 'U', []string{"x"}
				case x == 12:
					v.kind, v.args = 'A', []string{pick(ldVarNames), "x"}
				case x == 13:
					v.kind, v.args = 'E', []string{"echo a", "echo b"}
				}
				st.Features["var:"+string(v.kind)]++
				stmts = append(stmts, ldStmt{v: v})
				continue
			}
			t := &ldTask{name: pick(ldNames)}
			if r.Intn(3) == 0 {
				t.doc = pick([]string{" builds it", "doc", "  padded  ", " 100% of it"})
			}
			for j, m := 0, r.Intn(5); j < m; j++ {
				t.deps = append(t.deps, arg())
			}
			for j, m := 0, r.Intn(4); j < m; j++ {
				t.outs = append(t.outs, arg())
			}
			for j, m := 0, r.Intn(4); j < m; j++ {
				t.cmds = append(t.cmds, pick(ldCmds))
			}
			stmts = append(stmts, ldStmt{t: t})
		}
		src := ldSource(stmts)
		cs := hx(src) + "|" + hx(root) + "|" + hx(cwd)
		res := "PARSEERR"
		if tree, err := parser.New(src).Parse(); err == nil {
			if sf, err := file.New(tree, root, log); err != nil {
				res = "ERR"
			} else {
				res = ldDump(sf)
				// the patterns file.New registers for expansion are exactly the tasks' glob dependencies and outputs
				want := map[string]bool{}
				for _, t := range sf.Tasks {
					for _, p := range append(append([]string{}, t.GlobDependencies...), t.GlobOutputs...) {
						want[p] = true
					}
				}
				for p := range want {
					if _, ok := sf.Globs[p]; !ok {
						st.OracleFail["C05"]++
						fmt.Fprintf(bo, "C05 %s the pattern %q of a task is not registered for expansion\n", cs, p)
					}
				}
				for p := range sf.Globs {
					if !want[p] {
						st.OracleFail["C05"]++
						fmt.Fprintf(bo, "C05 %s %q is registered for expansion but no task declares it\n", cs, p)
					}
				}
			}
		}
		ref := ldReference(stmts, root, cwd)
		fmt.Fprintln(bc, cs)
		fmt.Fprintln(bi, res)
		st.Cases++
		st.Outcomes[strings.SplitN(res, " ", 2)[0]]++
		if len(stmts) >= 3 {
			st.Nontrivial++
		}
		if res != ref && res != "PARSEERR" {
			// which property does the difference belong to?
			props := map[string]bool{}
			a, b := strings.Split(res, " ## "), strings.Split(ref, " ## ")
			if len(a) != len(b) || a[0] != b[0] {
				props["C13"] = true // variables, or the file loads when it must not / must when it does not
			}
			for i := 1; i < len(a) && i < len(b); i++ {
				fa, fb := strings.Split(a[i], "|"), strings.Split(b[i], "|")
				for j := 0; j < len(fa) && j < len(fb); j++ {
					if fa[j] != fb[j] {
						props[map[int]string{0: "C03", 1: "C15", 2: "C03", 3: "C05", 4: "C05", 5: "C13", 6: "C12", 7: "C12", 8: "C12"}[j]] = true
					}
				}
			}
			for p := range props {
				st.OracleFail[p]++
				fmt.Fprintf(bo, "%s %s loading this spokfile gives %s, expected %s (source %q)\n", p, cs, res, ref, src)
			}
		}
		if len(st.Samples) < 3 && len(stmts) >= 4 && k%211 == 7 {
			st.Samples = append(st.Samples, fmt.Sprintf("%q", src))
		}
	}
	bc.Flush()
	bi.Flush()
	bo.Flush()
	fc.Close()
	fi.Close()
	fo.Close()
	sj, _ := json.Marshal(st)
	return os.WriteFile(filepath.Join(*out, fmt.Sprintf("stats.%d.json", *shard)), sj, 0o644)
}
