package main

// Component "effects": what spok itself writes (C19). Random project trees x valid / invalid spokfiles x
// action and flag combinations, invoked from the project root and from nested directories; the whole
// sandbox HOME is hashed before and after.
//
// case line:  <flags>|<ntasks>|<found><loads><hasclean><hasdefault><cwdhasspokfile>|<root>|<cwd>|<changed paths ';'>
//             (+ |<declared literal outputs ';'>)  flags: letters of i(nit) f(mt) v(ars) c(lean) s(how) q(uiet) d(ebug) F(orce) j(son); paths relative to home
// impl line:  ok           (the model answers ok when every changed path is one the action may change)
//
// "census" lists every call that can mutate the file system in spok's non-test packages.

import (
	"bufio"
	"bytes"
	"crypto/sha256"
	"encoding/json"
	"flag"
	"fmt"
	"go/ast"
	goparser "go/parser"
	gotoken "go/token"
	"math/rand"
	"os"
	"os/exec"
	"path/filepath"
	"sort"
	"strings"
)

func init() {
	commands["effects"] = effectsCmd
	commands["census"] = censusCmd
	commands["census-syntax"] = censusSyntaxCmd
}

func censusCmd(args []string) error {
	repo := args[0]
	mutators := map[string]bool{"WriteFile": true, "OpenFile": true, "Create": true, "Mkdir": true, "MkdirAll": true, "MkdirTemp": true,
		"Remove": true, "RemoveAll": true, "Rename": true, "Chmod": true, "Chown": true, "Truncate": true, "Symlink": true, "Link": true, "CreateTemp": true, "Chtimes": true}
	var lines []string
	filepath.Walk(repo, func(p string, info os.FileInfo, err error) error {
		if err != nil {
			return nil
		}
		if info.IsDir() && (info.Name() == ".git" || info.Name() == "testdata" || info.Name() == "docs") {
			return filepath.SkipDir
		}
		if info.IsDir() || !strings.HasSuffix(p, ".go") || strings.HasSuffix(p, "_test.go") {
			return nil
		}
		fset := gotoken.NewFileSet()
		f, err := goparser.ParseFile(fset, p, nil, 0)
		if err != nil {
			return nil
		}
		rel, _ := filepath.Rel(repo, filepath.Dir(p))
		for _, d := range f.Decls {
			fd, ok := d.(*ast.FuncDecl)
			if !ok || fd.Body == nil {
				continue
			}
			fname := fd.Name.Name
			if fd.Recv != nil && len(fd.Recv.List) > 0 {
				switch t := fd.Recv.List[0].Type.(type) {
				case *ast.StarExpr:
					if id, ok := t.X.(*ast.Ident); ok {
						fname = id.Name + "." + fname
					}
				case *ast.Ident:
					fname = t.Name + "." + fname
				}
			}
			ast.Inspect(fd.Body, func(n ast.Node) bool {
				ce, ok := n.(*ast.CallExpr)
				if !ok {
					return true
				}
				if se, ok := ce.Fun.(*ast.SelectorExpr); ok {
					if id, ok := se.X.(*ast.Ident); ok && (id.Name == "os" || id.Name == "ioutil") && mutators[se.Sel.Name] {
						lines = append(lines, fmt.Sprintf("%s %s %s.%s", filepath.ToSlash(rel), fname, id.Name, se.Sel.Name))
					}
				}
				return true
			})
		}
		return nil
	})
	sort.Strings(lines)
	for _, l := range lines {
		fmt.Println(l)
	}
	return nil
}

func hashTree(home string) map[string]string {
	m := map[string]string{}
	filepath.Walk(home, func(p string, info os.FileInfo, err error) error {
		if err != nil || p == home {
			return nil
		}
		r, _ := filepath.Rel(home, p)
		if info.IsDir() {
			m[r] = "dir:" + info.Mode().String()
			return nil
		}
		b, _ := os.ReadFile(p)
		m[r] = fmt.Sprintf("%x:%s", sha256.Sum256(b), info.Mode().String())
		return nil
	})
	return m
}

type effStats struct {
	Cases      int            `json:"cases"`
	Nontrivial int            `json:"distinct_nontrivial"`
	Flags      map[string]int `json:"flag_letters"`
	Kinds      map[string]int `json:"spokfile_kinds"`
	Nested     int            `json:"invoked_from_nested_directory"`
	Changed    map[string]int `json:"cases_by_number_of_changed_paths"`
	Samples    []string       `json:"samples"`
	OracleFail map[string]int `json:"oracle_failures"`
}

func effectsCmd(args []string) error {
	fs := flag.NewFlagSet("effects", flag.ExitOnError)
	out := fs.String("out", "", "")
	tier := fs.String("tier", "quick", "")
	seed := fs.Int64("seed", 1, "")
	shard := fs.Int("shard", 0, "")
	nshards := fs.Int("nshards", 1, "")
	spok := fs.String("spok", "", "")
	fs.Parse(args)
	sfx := fmt.Sprintf(".%d.txt", *shard)
	fc, _ := os.Create(filepath.Join(*out, "cases"+sfx))
	fi, _ := os.Create(filepath.Join(*out, "impl"+sfx))
	fo, _ := os.Create(filepath.Join(*out, "oracle"+sfx))
	bc, bi, bo := bufio.NewWriter(fc), bufio.NewWriter(fi), bufio.NewWriter(fo)
	st := effStats{Flags: map[string]int{}, Kinds: map[string]int{}, Changed: map[string]int{}, OracleFail: map[string]int{}}
	r := rand.New(rand.NewSource(*seed*67867967 + int64(*shard)))
	tmp, err := os.MkdirTemp(*out, "e")
	if err != nil {
		return err
	}
	tmp, _ = filepath.Abs(tmp)
	defer os.RemoveAll(tmp)
	n := 2000
	if *tier == "thorough" {
		n = 30000
	}
	goodFiles := []string{
		"# a comment\nX := \"1\"\n\ntask a(\"dep.txt\") {\n    echo a\n}\n",
		"task   default(  )   {\n  echo d\n}\ntask b(default) -> \"out.bin\" { echo b }\n",
		"Y := join(\"p\", \"q\")\ntask a() {\n}\n\n\n# trailing\n",
		"task clean() {\n    echo cleaning\n}\ntask a() -> (\"x.o\", \"y.o\") {\n    echo a\n}\n",
		"task a(\"*.txt\") {\n    echo {{.Z}}\n}\nZ := \"late\"\n",
		// a dependency that is never there: whatever is asked for, nothing comes into being where it should be
		"task default(\"never-made.txt\") {\n    echo d\n}\n\ntask a(default, \"sub/never-made.go\") {\n    echo a\n}\n",
	}
	badParse := []string{"task a( {\n", "X := \n", "task a() {\n  echo hi\n", "??\n"}
	badLoad := []string{"task a() {\n}\ntask a() {\n}\n", "X := nope(\"1\")\n", "X := exec(\"exit 3\")\n"}
	for k := 0; k < n / *nshards; k++ {
		home := filepath.Join(tmp, fmt.Sprintf("h%d", k))
		proj := filepath.Join(home, "w", "proj")
		os.MkdirAll(filepath.Join(proj, "sub", "deep"), 0o755)
		os.WriteFile(filepath.Join(home, "outside.txt"), []byte("o"), 0o644)
		os.WriteFile(filepath.Join(home, "w", "sibling.txt"), []byte("s"), 0o644)
		for _, f := range []string{"dep.txt", "a.txt", "out.bin", "x.o", "sub/deep/file.go", ".gitignore", "sub/.gitignore", "sub/deep/.gitignore"} {
			if r.Intn(2) == 0 {
				os.WriteFile(filepath.Join(proj, f), []byte("data "+f), 0o644)
			}
		}
		if r.Intn(4) == 0 {
			os.WriteFile(filepath.Join(proj, ".env"), []byte("E=1\n"), 0o644)
		}
		// the project (or the directory above it) is sometimes the top of a git repository: that changes nothing about which files an action may touch
		if x := r.Intn(6); x < 2 {
			top := []string{proj, filepath.Join(home, "w")}[x]
			os.MkdirAll(filepath.Join(top, ".git"), 0o755)
			os.WriteFile(filepath.Join(top, ".git", "HEAD"), []byte("ref: refs/heads/main\n"), 0o644)
		}
		kind := "good"
		src := ""
		found, loads := true, true
		switch x := r.Intn(10); {
		case x < 6:
			src = goodFiles[r.Intn(len(goodFiles))]
		case x < 7:
			kind, src, loads = "bad-parse", badParse[r.Intn(len(badParse))], false
		case x < 8:
			kind, src, loads = "bad-load", badLoad[r.Intn(len(badLoad))], false
		default:
			kind, found, loads = "none", false, false
		}
		st.Kinds[kind]++
		if found {
			os.WriteFile(filepath.Join(proj, "spokfile"), []byte(src), 0o644)
		}
		// files with names a tool might use for scratch copies of the spokfile: no action may touch them
		for _, d := range []string{"spokfile.tmp", ".spokfile.tmp", "spokfile.bak", "spokfile~", ".spokfile.swp"} {
			if r.Intn(3) == 0 {
				os.WriteFile(filepath.Join(proj, d), []byte(strings.Repeat("# somebody's scratch copy\n", 60)), 0o644)
			}
		}
		cwd := proj
		if r.Intn(3) == 0 {
			cwd = filepath.Join(proj, "sub", "deep")
			st.Nested++
			if r.Intn(4) == 0 { // a spokfile of its own in the nested directory
				os.WriteFile(filepath.Join(cwd, "spokfile"), []byte(goodFiles[2]), 0o644)
				found, loads, src = true, true, goodFiles[2]
				proj = cwd
			}
		}
		// sometimes an earlier fault has left the cache file unreadable (empty, torn, or not JSON)
		if found && loads && r.Intn(4) == 0 {
			os.MkdirAll(filepath.Join(proj, ".spok"), 0o755)
			os.WriteFile(filepath.Join(proj, ".spok", "cache.json"), []byte([]string{"", "{\"a\":\"12", "not json"}[r.Intn(3)]), 0o644)
			os.WriteFile(filepath.Join(proj, ".spok", ".gitignore"), []byte("*\n"), 0o644)
			st.Kinds["with-unreadable-cache"]++
		}
		// flags
		letters := ""
		var argv []string
		add := func(l string, a string) {
			letters += l
			argv = append(argv, a)
		}
		switch r.Intn(9) {
		case 0:
			add("i", "--init")
		case 1:
			add("f", "--fmt")
		case 2:
			add("v", "--vars")
		case 3:
			add("c", "--clean")
		case 4:
			add("s", "--show")
		}
		if r.Intn(5) == 0 {
			add("q", "--quiet")
		}
		if r.Intn(6) == 0 {
			add("d", "--debug")
		}
		if r.Intn(5) == 0 {
			add("F", "--force")
		}
		if r.Intn(5) == 0 {
			add("j", "--json")
		}
		if r.Intn(12) == 0 && !strings.Contains(letters, "f") {
			add("f", "--fmt")
		}
		ntasks := 0
		if r.Intn(2) == 0 {
			ntasks = 1
			argv = append(argv, []string{"a", "b", "default", "nosuch"}[r.Intn(4)])
		}
		for _, l := range letters {
			st.Flags[string(l)]++
		}
		// sometimes the spokfile is a symbolic link to a file kept elsewhere (not together with --fmt, which would then rightly
		// rewrite that file): an existing spokfile is an existing spokfile however it got there
		if found && !strings.Contains(letters, "f") && r.Intn(6) == 0 {
			shared := filepath.Join(home, "shared")
			os.MkdirAll(shared, 0o755)
			if os.Rename(filepath.Join(proj, "spokfile"), filepath.Join(shared, "spokfile")) == nil {
				os.Symlink(filepath.Join(shared, "spokfile"), filepath.Join(proj, "spokfile"))
				st.Kinds["spokfile-is-a-symlink"]++
			}
		}
		// sometimes the nested working directory has a `spokfile` entry that is a symbolic link to nothing: that entry IS the
		// nearest spokfile (it cannot be read, so the invocation fails and touches nothing) - it is not to be stepped over
		if cwd != proj && !strings.Contains(letters, "i") && r.Intn(4) == 0 {
			if os.Symlink("gone-away", filepath.Join(cwd, "spokfile")) == nil {
				found, loads, src, proj = true, false, "", cwd
				st.Kinds["dangling-spokfile-link-in-cwd"]++
			}
		}
		hasClean := strings.Contains(src, "task clean(")
		hasDefault := strings.Contains(src, "default(")
		_, cwdSpokErr := os.Stat(filepath.Join(cwd, "spokfile"))
		oldIgnore, oldIgnoreErr := os.ReadFile(filepath.Join(cwd, ".gitignore"))
		before := hashTree(home)
		cmd := exec.Command(*spok, argv...)
		cmd.Dir = cwd
		cmd.Env = []string{"HOME=" + home, "PATH=/usr/bin:/bin"}
		var se bytes.Buffer
		cmd.Stderr = &se
		cmd.Run()
		after := hashTree(home)
		var changed []string
		for p, h := range before {
			if after[p] != h {
				changed = append(changed, p)
			}
		}
		for p := range after {
			if _, ok := before[p]; !ok {
				changed = append(changed, p)
			}
		}
		sort.Strings(changed)
		b := func(x bool) string {
			if x {
				return "1"
			}
			return "0"
		}
		rootRel, _ := filepath.Rel(home, proj)
		cwdRel, _ := filepath.Rel(home, cwd)
		var ctargets []string
		for _, o := range []string{"out.bin", "x.o", "y.o"} {
			if strings.Contains(src, "\""+o+"\"") {
				ctargets = append(ctargets, filepath.ToSlash(filepath.Join(rootRel, o)))
			}
		}
		cs := fmt.Sprintf("%s|%d|%s%s%s%s%s|%s|%s|%s|%s", letters, ntasks, b(found), b(loads), b(hasClean), b(hasDefault), b(cwdSpokErr == nil),
			filepath.ToSlash(rootRel), filepath.ToSlash(cwdRel), strings.Join(changed, ";"), strings.Join(ctargets, ";"))
		fmt.Fprintln(bc, cs)
		fmt.Fprintln(bi, "ok")
		st.Cases++
		if len(changed) > 0 {
			st.Nontrivial++
		}
		st.Changed[fmt.Sprint(len(changed))]++
		// ---- direct oracle, from the text of C19
		has := func(l string) bool { return strings.Contains(letters, l) }
		allowed := func(p string) bool {
			abs := filepath.Join(home, p)
			inCache := abs == filepath.Join(proj, ".spok") || strings.HasPrefix(abs, filepath.Join(proj, ".spok")+"/")
			switch {
			case has("i"):
				return cwdSpokErr != nil && (abs == filepath.Join(cwd, "spokfile") || abs == filepath.Join(cwd, ".gitignore"))
			case has("q") && has("d"):
				return false
			case !found || !loads:
				return false
			case has("f"):
				return abs == filepath.Join(proj, "spokfile")
			case has("v"):
				return false
			case has("c"):
				if hasClean {
					return inCache
				}
				// declared outputs of the fixed spokfiles, and the cache
				for _, o := range []string{"out.bin", "x.o", "y.o"} {
					if strings.Contains(src, "\""+o+"\"") && abs == filepath.Join(proj, o) {
						return true
					}
				}
				return inCache
			case has("s"):
				return false
			default:
				if ntasks == 0 && !hasDefault {
					return false
				}
				return inCache
			}
		}
		for _, p := range changed {
			if !allowed(p) {
				st.OracleFail["C19"]++
				fmt.Fprintf(bo, "C19 %s `spok %s` (from %s) changed %s, which this action may not touch\n", strings.ReplaceAll(cs, " ", "_"), strings.Join(argv, " "), cwdRel, p)
			}
		}
		// --init APPENDS to .gitignore: what the file held stays where it was
		if has("i") && oldIgnoreErr == nil {
			if now, err := os.ReadFile(filepath.Join(cwd, ".gitignore")); err != nil || !bytes.HasPrefix(now, oldIgnore) {
				st.OracleFail["C19"]++
				fmt.Fprintf(bo, "C19 %s `spok %s` (from %s): .gitignore held %q before and holds %q now, its old content is no longer there\n", strings.ReplaceAll(cs, " ", "_"), strings.Join(argv, " "), cwdRel, string(oldIgnore), string(now))
			}
		}
		if len(st.Samples) < 5 && len(changed) > 0 && k%53 == 1 {
			st.Samples = append(st.Samples, fmt.Sprintf("spok %s (cwd %s, spokfile %s) changed %v", strings.Join(argv, " "), cwdRel, kind, changed))
		}
		os.RemoveAll(home)
	}
	bc.Flush()
	bi.Flush()
	bo.Flush()
	fc.Close()
	fi.Close()
	fo.Close()
	sj, _ := json.Marshal(st)
	return os.WriteFile(filepath.Join(*out, fmt.Sprintf("stats.%d.json", *shard)), sj, 0o644)
}

// census-syntax: the shape of the syntax code the Coq models transliterate - every token kind, every function of the lexer
// (state functions and helpers), every method of the parser, every String method of the AST.  A new state function, token
// kind or parser method means the model no longer covers the code; the check then says so instead of staying silent.
func censusSyntaxCmd(args []string) error {
	repo := args[0]
	var lines []string
	for _, pkg := range []string{"token", "lexer", "parser", "ast"} {
		dir := filepath.Join(repo, pkg)
		ents, _ := os.ReadDir(dir)
		for _, e := range ents {
			if e.IsDir() || !strings.HasSuffix(e.Name(), ".go") || strings.HasSuffix(e.Name(), "_test.go") {
				continue
			}
			fset := gotoken.NewFileSet()
			f, err := goparser.ParseFile(fset, filepath.Join(dir, e.Name()), nil, 0)
			if err != nil {
				continue
			}
			for _, d := range f.Decls {
				switch v := d.(type) {
				case *ast.FuncDecl:
					name := v.Name.Name
					if v.Recv != nil && len(v.Recv.List) > 0 {
						switch t := v.Recv.List[0].Type.(type) {
						case *ast.StarExpr:
							if id, ok := t.X.(*ast.Ident); ok {
								name = id.Name + "." + name
							}
						case *ast.Ident:
							name = t.Name + "." + name
						}
					}
					lines = append(lines, pkg+" func "+name)
				case *ast.GenDecl:
					if pkg != "token" || v.Tok != gotoken.CONST {
						continue
					}
					for _, sp := range v.Specs {
						if vs, ok := sp.(*ast.ValueSpec); ok {
							for _, n := range vs.Names {
								lines = append(lines, "token const "+n.Name)
							}
						}
					}
				}
			}
		}
	}
	sort.Strings(lines)
	for _, l := range lines {
		fmt.Println(l)
	}
	return nil
}
