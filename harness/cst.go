package main

// Component "cst": spokfiles written out from a known structure in every admissible layout (C06).
// A concrete syntax tree = structure + layout choices.  The harness renders it, lets the real parser parse the text,
// and compares with the structure it started from; the model (Coq: render, parse, erase, cst_wf_b) gets the same tree.
// case line : the encoded tree (see enc* below)
// impl line : <text hex> ## <impl parse: "T tree" | "E line ctx" | ...> ## <the structure written, as a tree>

import (
	"bufio"
	"encoding/hex"
	"encoding/json"
	"flag"
	"fmt"
	"math/rand"
	"os"
	"os/exec"
	"path/filepath"
	"strings"
)

func init() { commands["cst"] = cstCmd }

type cArg struct {
	str bool
	s   string
}
type cItem struct {
	a     cArg
	ws    string
	comma bool
	cws   string
}
type cArgs struct {
	ws    string
	items []cItem
}
type cOuts struct {
	kind   byte // N B P
	w1, w2 string
	a      cArg
	args   cArgs
}
type cLine struct{ c, w string }
type cBody struct {
	ws      string
	cmds    []cLine
	hasLast bool
	last    string
	sp      bool
}
type cStmt struct {
	kind       byte // C S F I T
	text       string
	name       string
	w1, w2, w3 string
	str        string
	f          string
	args       cArgs
	ident      string
	hasDoc     bool
	doc, docw  string
	wt, wn, wd string
	deps       cArgs
	outs       cOuts
	body       cBody
	gap        string
}
type cFile struct {
	ws    string
	stmts []cStmt
}

// ---- render (mirrors Cst.v) ----
func (a cArg) render() string {
	if a.str {
		return "\"" + a.s + "\""
	}
	return a.s
}
func (a cArgs) render() string {
	var b strings.Builder
	b.WriteString("(" + a.ws)
	for _, i := range a.items {
		b.WriteString(i.a.render() + i.ws)
		if i.comma {
			b.WriteString("," + i.cws)
		}
	}
	b.WriteString(")")
	return b.String()
}
func (o cOuts) render() string {
	switch o.kind {
	case 'B':
		return "->" + o.w1 + o.a.render() + o.w2
	case 'P':
		return "->" + o.w1 + o.args.render() + o.w2
	}
	return ""
}
func (bd cBody) render() string {
	var b strings.Builder
	b.WriteString("{" + bd.ws)
	for _, l := range bd.cmds {
		b.WriteString(l.c + l.w)
	}
	if bd.hasLast {
		b.WriteString(bd.last)
		if bd.sp {
			b.WriteString(" ")
		}
	}
	b.WriteString("}")
	return b.String()
}
func (s cStmt) render() string {
	switch s.kind {
	case 'C':
		return "#" + s.text
	case 'S':
		return s.name + s.w1 + ":=" + s.w2 + "\"" + s.str + "\""
	case 'F':
		return s.name + s.w1 + ":=" + s.w2 + s.f + s.w3 + s.args.render()
	case 'I':
		return s.name + s.w1 + ":=" + s.w2 + s.ident
	}
	d := ""
	if s.hasDoc {
		d = "#" + s.doc + s.docw
	}
	return d + "task" + s.wt + s.name + s.wn + s.deps.render() + s.wd + s.outs.render() + s.body.render()
}
func (f cFile) render() string {
	var b strings.Builder
	b.WriteString(f.ws)
	for _, s := range f.stmts {
		b.WriteString(s.render() + s.gap)
	}
	return b.String()
}

// ---- erase: the structure, in the same tree notation as treeStr ----
func (a cArg) tree() string {
	if a.str {
		return "s." + hx(a.s)
	}
	return "i." + hx(a.s)
}
func (a cArgs) tree() string {
	p := make([]string, 0, len(a.items))
	for _, i := range a.items {
		p = append(p, i.a.tree())
	}
	return strings.Join(p, ",")
}
func (s cStmt) tree() string {
	switch s.kind {
	case 'C':
		return "C:" + hx(s.text)
	case 'S':
		return "A:" + hx(s.name) + ":S:" + hx(s.str)
	case 'F':
		return "A:" + hx(s.name) + ":F:" + hx(s.f) + "(" + s.args.tree() + ")"
	case 'I':
		return "A:" + hx(s.name) + ":I:" + hx(s.ident)
	}
	outs := ""
	switch s.outs.kind {
	case 'B':
		outs = s.outs.a.tree()
	case 'P':
		outs = s.outs.args.tree()
	}
	var cmds []string
	for _, l := range s.body.cmds {
		cmds = append(cmds, hx(l.c))
	}
	if s.body.hasLast {
		cmds = append(cmds, hx(s.body.last))
	}
	doc := ""
	if s.hasDoc {
		doc = s.doc
	}
	return "T:" + hx(doc) + ":" + hx(s.name) + ":" + s.deps.tree() + ":" + outs + ":" + strings.Join(cmds, ",")
}
func (f cFile) tree() string {
	p := make([]string, 0, len(f.stmts))
	for _, s := range f.stmts {
		p = append(p, s.tree())
	}
	return strings.Join(p, ";")
}

// ---- encoding for the model ----
func (a cArg) enc() string {
	if a.str {
		return "s." + hx(a.s)
	}
	return "i." + hx(a.s)
}
func (a cArgs) enc() string {
	p := make([]string, 0, len(a.items))
	for _, i := range a.items {
		c := "n"
		if i.comma {
			c = "c" + hx(i.cws)
		}
		p = append(p, i.a.enc()+"."+hx(i.ws)+"."+c)
	}
	return hx(a.ws) + "/" + strings.Join(p, ",")
}
func (o cOuts) enc() string {
	switch o.kind {
	case 'B':
		return "B/" + hx(o.w1) + "/" + hx(o.w2) + "/" + o.a.enc()
	case 'P':
		return "P/" + hx(o.w1) + "/" + hx(o.w2) + "/" + o.args.enc()
	}
	return "N"
}
func (bd cBody) enc() string {
	p := make([]string, 0, len(bd.cmds))
	for _, l := range bd.cmds {
		p = append(p, hx(l.c)+"."+hx(l.w))
	}
	last := "n"
	if bd.hasLast {
		sp := "0"
		if bd.sp {
			sp = "1"
		}
		last = "l" + hx(bd.last) + "." + sp
	}
	return hx(bd.ws) + "/" + strings.Join(p, ",") + "/" + last
}
func (s cStmt) enc() string {
	switch s.kind {
	case 'C':
		return "C~" + hx(s.text) + "~" + hx(s.gap)
	case 'S':
		return "S~" + hx(s.name) + "~" + hx(s.w1) + "~" + hx(s.w2) + "~" + hx(s.str) + "~" + hx(s.gap)
	case 'F':
		return "F~" + hx(s.name) + "~" + hx(s.w1) + "~" + hx(s.w2) + "~" + hx(s.f) + "~" + hx(s.w3) + "~" + s.args.enc() + "~" + hx(s.gap)
	case 'I':
		return "I~" + hx(s.name) + "~" + hx(s.w1) + "~" + hx(s.w2) + "~" + hx(s.ident) + "~" + hx(s.gap)
	}
	doc := "n"
	if s.hasDoc {
		doc = "d" + hx(s.doc) + "." + hx(s.docw)
	}
	return "T~" + doc + "~" + hx(s.wt) + "~" + hx(s.name) + "~" + hx(s.wn) + "~" + s.deps.enc() + "~" + hx(s.wd) + "~" + s.outs.enc() + "~" + s.body.enc() + "~" + hx(s.gap)
}
func (f cFile) enc() string {
	p := []string{hx(f.ws)}
	for _, s := range f.stmts {
		p = append(p, s.enc())
	}
	return strings.Join(p, "|")
}

// ---- generator ----
type cstGen struct {
	r     *rand.Rand
	crlf  bool // this file's dominant line end
	feats map[string]int
}

func (g *cstGen) eol() string {
	if g.crlf != (g.r.Intn(12) == 0) { // mostly one style, sometimes mixed
		g.feats["crlf_line_end"]++
		return "\r\n"
	}
	g.feats["lf_line_end"]++
	return "\n"
}
func (g *cstGen) iws(max int) string {
	n := g.r.Intn(max + 1)
	var b strings.Builder
	for i := 0; i < n; i++ {
		if g.r.Intn(4) == 0 {
			b.WriteByte('\t')
			g.feats["tab"]++
		} else {
			b.WriteByte(' ')
		}
	}
	return b.String()
}

// general whitespace: spaces, tabs, line ends, rarely a lone CR
func (g *cstGen) ws(max int) string {
	n := g.r.Intn(max + 1)
	var b strings.Builder
	for i := 0; i < n; i++ {
		switch x := g.r.Intn(12); {
		case x < 6:
			b.WriteByte(' ')
		case x < 8:
			b.WriteByte('\t')
		case x < 11:
			b.WriteString(g.eol())
		default:
			b.WriteByte('\r')
			g.feats["lone_cr_whitespace"]++
		}
	}
	return b.String()
}
func (g *cstGen) eolws() string {
	s := g.eol()
	if g.r.Intn(3) == 0 {
		s += g.ws(3)
		g.feats["blank_lines_or_indent"]++
	}
	return s
}

var cstIdents = []string{"a", "b", "x", "build", "test_all", "GLOBAL", "_p", "é", "日本", "naïve", "Ωmega", "ta", "tas", "tasks", "taskx", "t", "join", "exec", "clean", "default",
	"בנה", "build_בנה", "имя", "λx", "ß", "×x"[2:], "نام", "ｆｕｌｌ", "𝒳", "РЕЛИЗ", "čas"} // letters whose UTF-8 lead bytes cover 0xC3..0xF0, incl. 0xD7 (Hebrew), whose Latin-1 reading is not a letter

func (g *cstGen) ident() string {
	s := cstIdents[g.r.Intn(len(cstIdents))]
	if len(s) != len([]rune(s)) {
		g.feats["non_ascii_identifier"]++
	}
	return s
}

var cstStrChars = []string{"a", "b", "z", " ", "*", ".", "/", "-", "_", "{", "}", "(", ")", ",", "#", ":", "=", "$", "'", "\\", "é", "日", "\t", "0", "9", ">", "<", "|", "&", ";", "%", "\ufffd", "\u200b", "Р", "†", "😊"} // incl. a well-formed U+FFFD, a zero-width space, and runes whose low byte is that of an ASCII blank

func (g *cstGen) str() string {
	n := g.r.Intn(8)
	var b strings.Builder
	if g.r.Intn(40) == 0 {
		b.WriteString("\n") // a line end directly after the opening quote is read before any line-end check
		g.feats["lf_first_in_string"]++
	}
	for i := 0; i < n; i++ {
		c := cstStrChars[g.r.Intn(len(cstStrChars))]
		if len(c) > 1 {
			g.feats["non_ascii_string"]++
		}
		b.WriteString(c)
	}
	if g.r.Intn(40) == 0 {
		b.WriteString("\rx") // a CR inside a string is just a character
		g.feats["cr_inside_string"]++
	}
	return b.String()
}
func (g *cstGen) comment() string {
	if g.r.Intn(8) == 0 {
		g.feats["empty_comment"]++
		return ""
	}
	if g.r.Intn(12) == 0 { // a doubled marker or a banner: the comment's own text begins with '#'
		g.feats["comment_text_starts_with_hash"]++
		return strings.Repeat("#", 1+g.r.Intn(4)) + []string{"", " heading", "# x #"}[g.r.Intn(3)]
	}
	n := 1 + g.r.Intn(10)
	var b strings.Builder
	for i := 0; i < n; i++ {
		b.WriteString(cstStrChars[g.r.Intn(len(cstStrChars))])
	}
	if g.r.Intn(6) == 0 {
		b.WriteString("\"q\"")
	}
	s := b.String()
	if g.r.Intn(5) != 0 {
		s = " " + s
	}
	if g.r.Intn(10) == 0 {
		s += " \t"
		g.feats["comment_trailing_space"]++
	}
	return s
}

var cmdChars = []string{"a", "e", "z", "A", " ", " ", "-", ".", "/", "$", "\"", "'", "=", "{", "(", ")", ",", ":", ";", "|", "&", ">", "<", "*", "0", "7", "\t", "\\", "_", "%", "+", "[", "]", "~", "!", "?", "@", "^"}
var cmdFirst = []string{"l", "g", "e", "c", "m", "Z", "é", "ж"}

// a command: first rune a letter; ASCII afterwards; no LF, '#', '}' except inside "{{.NAME}}"
func (g *cstGen) command(first bool) string {
	var b strings.Builder
	if first {
		f := cmdFirst[g.r.Intn(len(cmdFirst))]
		if len(f) > 1 {
			g.feats["command_starts_with_non_ascii_letter"]++
		}
		b.WriteString(f)
	} else {
		st := []string{"l", "-", "$", "e", "\"", "x", "/", ".", "{{.X}}", "{{ .NAME }}", "{x", "é{{.X}}"}[g.r.Intn(12)]
		if strings.HasPrefix(st, "{") {
			g.feats["later_command_starts_with_brace_or_interpolation"]++
		}
		b.WriteString(st)
	}
	n := g.r.Intn(10)
	for i := 0; i < n; i++ {
		if g.r.Intn(9) == 0 && b.Len() > 0 {
			b.WriteString("{{." + []string{"X", "NAME", "a_b"}[g.r.Intn(3)] + "}}")
			g.feats["interpolation_in_command"]++
			continue
		}
		if g.r.Intn(60) == 0 && b.Len() > 0 {
			// the "{{" lookahead swallows without looking at the rune before it: a '}' or a non-ASCII rune survives there
			b.WriteString([]string{"}", "é", "#"}[g.r.Intn(3)] + "{{.X}}")
			g.feats["rune_hidden_by_interpolation_lookahead"]++
			continue
		}
		c := cmdChars[g.r.Intn(len(cmdChars))]
		if c == "{" && i == n-1 {
			c = "x" // a command must not end in '{' right before a one-line "}"... keep it simple: never end with '{'
		}
		b.WriteString(c)
	}
	return b.String()
}
func (g *cstGen) arg() cArg {
	if g.r.Intn(3) == 0 {
		return cArg{false, g.ident()}
	}
	return cArg{true, g.str()}
}
func (g *cstGen) args(max int) cArgs {
	a := cArgs{ws: g.ws(2)}
	n := g.r.Intn(max + 1)
	for i := 0; i < n; i++ {
		it := cItem{a: g.arg()}
		if it.a.str {
			it.ws = g.iws(2)
		} else {
			it.ws = g.ws(2)
		}
		if i < n-1 || g.r.Intn(4) == 0 {
			it.comma = true
			it.cws = g.ws(2)
			if i == n-1 {
				g.feats["trailing_comma"]++
			}
		}
		a.items = append(a.items, it)
	}
	return a
}
func (g *cstGen) body() cBody {
	bd := cBody{ws: g.ws(3)}
	switch x := g.r.Intn(10); {
	case x == 0: // empty body
		g.feats["empty_body"]++
	case x < 3: // one-line body
		bd.hasLast, bd.last, bd.sp = true, g.command(true), g.r.Intn(4) != 0
		g.feats["one_line_body"]++
	default:
		n := 1 + g.r.Intn(4)
		for i := 0; i < n; i++ {
			bd.cmds = append(bd.cmds, cLine{g.command(i == 0), g.eolws()})
		}
		if g.r.Intn(6) == 0 {
			bd.hasLast, bd.last, bd.sp = true, g.command(false), g.r.Intn(2) == 0
			g.feats["last_command_on_closing_line"]++
		}
		g.feats["multi_line_body"]++
	}
	// fix up: trailing CR never; without the separating space the last command must not end in a space
	fix := func(c string) string {
		for strings.HasSuffix(c, "\r") {
			c = c[:len(c)-1] + "x"
		}
		return c
	}
	for i := range bd.cmds {
		bd.cmds[i].c = fix(bd.cmds[i].c)
	}
	if bd.hasLast {
		bd.last = fix(bd.last)
		if !bd.sp {
			for strings.HasSuffix(bd.last, " ") {
				bd.last = bd.last[:len(bd.last)-1] + "x"
			}
		}
	}
	return bd
}
func (g *cstGen) name() string {
	for {
		n := g.ident()
		if n != "task" {
			return n
		}
	}
}
func (g *cstGen) file() cFile {
	g.crlf = g.r.Intn(3) == 0
	f := cFile{ws: g.ws(3)}
	n := g.r.Intn(7)
	for i := 0; i < n; i++ {
		last := i == n-1
		var s cStmt
		switch x := g.r.Intn(20); {
		case x < 4:
			s = cStmt{kind: 'C', text: g.comment()}
			g.feats["comment"]++
		case x < 8:
			s = cStmt{kind: 'S', name: g.name(), w1: g.ws(2), w2: g.ws(2), str: g.str()}
			g.feats["string_variable"]++
		case x < 11:
			s = cStmt{kind: 'F', name: g.name(), w1: g.ws(2), w2: g.ws(2), f: g.ident(), w3: g.ws(1), args: g.args(3)}
			g.feats["call_variable"]++
		case x == 11 && last:
			s = cStmt{kind: 'I', name: g.name(), w1: g.ws(2), w2: g.ws(2), ident: g.ident()}
			g.feats["ident_variable_last"]++
		default:
			s = cStmt{kind: 'T', name: g.ident(), wn: g.ws(2), deps: g.args(4), wd: g.ws(2), body: g.body()}
			s.wt = " " + g.ws(2)
			if g.r.Intn(60) == 0 {
				s.name, s.wt = "", g.ws(1) // "task (" - an empty task name is what the grammar gives
				g.feats["empty_task_name"]++
			}
			if g.r.Intn(2) == 0 {
				s.hasDoc = true
				for s.doc == "" {
					s.doc = g.comment()
				}
				s.docw = g.eolws()
				g.feats["docstring"]++
			}
			switch y := g.r.Intn(6); {
			case y == 0:
				s.outs = cOuts{kind: 'B', w1: g.ws(2), a: cArg{true, g.str()}, w2: g.iws(2)}
				g.feats["bare_string_output"]++
			case y == 1:
				s.outs = cOuts{kind: 'B', w1: g.ws(2), a: cArg{false, g.ident()}, w2: g.ws(2)}
				g.feats["bare_ident_output"]++
			case y == 2:
				s.outs = cOuts{kind: 'P', w1: g.ws(2), args: g.args(1), w2: g.ws(2)}
				if len(s.outs.args.items) == 1 {
					g.feats["parenthesised_single_output"]++
				}
			case y == 3:
				s.outs = cOuts{kind: 'P', w1: g.ws(2), args: g.args(3), w2: g.ws(2)}
				g.feats["parenthesised_outputs"]++
			default:
				s.outs = cOuts{kind: 'N'}
			}
			g.feats["task"]++
		}
		// the gap after the statement
		switch s.kind {
		case 'C', 'S':
			if last && g.r.Intn(4) == 0 {
				s.gap = ""
				g.feats["no_final_newline"]++
			} else {
				s.gap = g.eolws()
			}
		case 'I':
			s.gap = g.ws(3)
		default:
			if g.r.Intn(10) == 0 {
				s.gap = g.ws(1) // possibly nothing at all between "}" / ")" and the next statement
				g.feats["statement_without_separating_newline"]++
			} else {
				s.gap = g.eolws()
			}
		}
		f.stmts = append(f.stmts, s)
	}
	// a non-empty comment directly before an undocumented task IS its docstring: write it as one
	for i := 0; i+1 < len(f.stmts); i++ {
		if f.stmts[i].kind == 'C' && f.stmts[i].text != "" && f.stmts[i+1].kind == 'T' && !f.stmts[i+1].hasDoc {
			nx := f.stmts[i+1]
			nx.hasDoc, nx.doc, nx.docw = true, f.stmts[i].text, f.stmts[i].gap
			f.stmts = append(f.stmts[:i], append([]cStmt{nx}, f.stmts[i+2:]...)...)
			i--
		}
	}
	return f
}

type cstStats struct {
	Cases             int            `json:"cases"`
	Nontrivial        int            `json:"distinct_nontrivial"`
	Features          map[string]int `json:"layout_features"`
	Stmts             map[string]int `json:"statements_per_file"`
	Outcomes          map[string]int `json:"impl_outcomes"`
	Samples           []string       `json:"samples"`
	OracleFail        map[string]int `json:"oracle_failures"`
	CommentItems      int            `json:"comment_and_docstring_items_checked_textually"`
	UnicodeLayouts    int            `json:"files_also_parsed_with_unicode_spaces_in_the_layout_implementation_only"`
	BlankDocAsComment int            `json:"blank_docstrings_read_as_blank_comments"`
}

func cstCmd(args []string) error {
	fs := flag.NewFlagSet("cst", flag.ExitOnError)
	out := fs.String("out", "", "")
	tier := fs.String("tier", "quick", "")
	seed := fs.Int64("seed", 1, "")
	shard := fs.Int("shard", 0, "")
	nshards := fs.Int("nshards", 1, "")
	spokBin := fs.String("spok", "", "path to the built spok binary (for the --fmt runs)")
	fs.Parse(args)
	sfx := fmt.Sprintf(".%d.txt", *shard)
	fc, _ := os.Create(filepath.Join(*out, "cases"+sfx))
	fi, _ := os.Create(filepath.Join(*out, "impl"+sfx))
	fo, _ := os.Create(filepath.Join(*out, "oracle"+sfx))
	bc, bi, bo := bufio.NewWriterSize(fc, 1<<20), bufio.NewWriterSize(fi, 1<<20), bufio.NewWriter(fo)
	st := cstStats{Features: map[string]int{}, Stmts: map[string]int{}, Outcomes: map[string]int{}, OracleFail: map[string]int{}}
	if *spokBin != "" {
		fmtCLI(*spokBin, *out, *seed, *shard, *tier, &st, bo)
	}
	g := &cstGen{r: rand.New(rand.NewSource(*seed*7919 + int64(*shard))), feats: st.Features}
	n := 40000
	if *tier == "thorough" {
		n = 600000
	}
	self, _ := os.Executable()
	var wk *synWorker
	served := 0
	defer func() {
		if wk != nil {
			wk.stop()
		}
	}()
	seen := map[string]struct{}{}
	for k := 0; k < n / *nshards; k++ {
		f := g.file()
		text := f.render()
		if _, dup := seen[text]; dup {
			continue
		}
		seen[text] = struct{}{}
		if wk == nil || served >= 20000 {
			if wk != nil {
				wk.stop()
			}
			wk, served = startSynWorker(self), 0
		}
		served++
		want := "T " + f.tree()
		got := "CRASH"
		resp, ok := wk.ask(hx(text))
		if ok {
			fields := strings.Split(strings.SplitN(resp, "\t", 2)[0], " ## ")
			if len(fields) >= 2 {
				got = fields[1]
			}
		} else {
			wk.stop()
			wk = nil
		}
		// the worker's own direct oracles (tiling, located errors, formatting keeps meaning / is idempotent / keeps comments) on this text
		if ok {
			if parts := strings.SplitN(resp, "\t", 3); len(parts) == 3 && parts[1] != "" {
				for _, e := range strings.Split(parts[1], "\x1e") {
					if pd := strings.SplitN(e, "\x1f", 2); len(pd) == 2 {
						st.OracleFail[pd[0]]++
						fmt.Fprintf(bo, "%s %s %s\n", pd[0], hx(text), pd[1])
					}
				}
			}
		}
		fmt.Fprintln(bc, f.enc())
		fmt.Fprintf(bi, "%s ## %s ## %s\n", hx(text), got, want)
		st.Cases++
		st.Stmts[fmt.Sprint(len(f.stmts))]++
		st.Outcomes[strings.SplitN(got, " ", 2)[0]]++
		if len(f.stmts) >= 2 {
			st.Nontrivial++
		}
		// C15, judged on the text alone: the comments and docstrings read off the formatted text (by a scanner that knows
		// nothing of spok's lexer) are the ones this structure was written with, in the same places
		if ok && strings.HasPrefix(got, "T ") && len(fieldsOf(resp)) >= 3 {
			if fb, err := hex.DecodeString(fieldsOf(resp)[2]); err == nil {
				wantC, gotC := f.commentSeq(), scanFormatted(string(fb))
				st.CommentItems += len(wantC)
				if strings.Join(wantC, "\x1f") != strings.Join(gotC, "\x1f") {
					st.OracleFail["C15"]++
					fmt.Fprintf(bo, "C15 %s the formatted text %q carries the comments/docstrings %q, the file was written with %q\n", hx(text), string(fb), gotC, wantC)
				}
			}
		}
		// one case in eight: the same structure laid out with Unicode spaces must parse to the same structure
		if ok && got == want && k%8 == 3 {
			vt := uniLayout(f, g.r).render()
			if vt != text {
				st.UnicodeLayouts++
				if vresp, vok := wk.ask(hx(vt)); vok {
					if vf := fieldsOf(vresp); len(vf) >= 2 && vf[1] != want {
						st.OracleFail["C06"]++
						fmt.Fprintf(bo, "C06 %s with Unicode spaces in its layout this text parses to %s, the structure written is %s\n", hx(vt), vf[1], want)
					}
				} else {
					wk.stop()
					wk = nil
				}
			}
		}
		// a task whose docstring is blank: "a blank comment, then the task without a docstring" is the same file read the other way
		wantAlt := "T " + f.treeBlankDocsAsComments()
		if got != want && got == wantAlt {
			st.BlankDocAsComment++
		}
		if got != want && got != wantAlt {
			st.OracleFail["C06"]++
			fmt.Fprintf(bo, "C06 %s parsing the text written from this structure gives %s, the structure written is %s\n", hx(text), got, want)
		}
		if len(st.Samples) < 4 && len(f.stmts) >= 3 && st.Cases%97 == 5 {
			st.Samples = append(st.Samples, fmt.Sprintf("%q", text))
		}
	}
	bc.Flush()
	bi.Flush()
	bo.Flush()
	fc.Close()
	fi.Close()
	fo.Close()
	sj, _ := json.Marshal(st)
	return os.WriteFile(filepath.Join(*out, fmt.Sprintf("stats.%d.json", *shard)), sj, 0o644)
}

// uniLayout: the same file with the blanks of its layout (never those inside strings, comments or commands) replaced by Unicode
// spaces outside ASCII - the lexer skips "any utf-8 whitespace" between tokens, so this is the same structure in another layout
// (a layout outside the class the round-trip theorem covers: checked on the implementation only)
func uniLayout(f cFile, r *rand.Rand) cFile {
	sp := []string{"\u3000", "\u2003", "\u00a0", "\u2028", "\u1680", "\u205f"}
	u := func(w string) string {
		var b strings.Builder
		for _, c := range w {
			if c == ' ' && r.Intn(2) == 0 {
				b.WriteString(sp[r.Intn(len(sp))])
			} else {
				b.WriteRune(c)
			}
		}
		return b.String()
	}
	ua := func(a cArgs) cArgs {
		o := cArgs{ws: u(a.ws)}
		for _, i := range a.items {
			i.ws, i.cws = u(i.ws), u(i.cws)
			o.items = append(o.items, i)
		}
		return o
	}
	g := cFile{ws: u(f.ws)}
	for _, s := range f.stmts {
		s.w1, s.w2, s.w3, s.docw, s.wt, s.wn, s.wd, s.gap = u(s.w1), u(s.w2), u(s.w3), u(s.docw), u(s.wt), u(s.wn), u(s.wd), u(s.gap)
		s.args, s.deps = ua(s.args), ua(s.deps)
		s.outs.w1, s.outs.w2, s.outs.args = u(s.outs.w1), u(s.outs.w2), ua(s.outs.args)
		bd := s.body
		bd.ws = u(bd.ws)
		bd.cmds = nil
		for _, l := range s.body.cmds {
			bd.cmds = append(bd.cmds, cLine{l.c, u(l.w)})
		}
		s.body = bd
		g.stmts = append(g.stmts, s)
	}
	return g
}

// treeBlankDocsAsComments: the tree notation of the file with every blank docstring read as a free-standing blank comment
func (f cFile) treeBlankDocsAsComments() string {
	g := cFile{ws: f.ws}
	for _, s := range f.stmts {
		if s.kind == 'T' && s.hasDoc && strings.TrimSpace(s.doc) == "" {
			g.stmts = append(g.stmts, cStmt{kind: 'C', text: s.doc})
			s.hasDoc, s.doc = false, ""
		}
		g.stmts = append(g.stmts, s)
	}
	return g.tree()
}

func fieldsOf(resp string) []string { return strings.Split(strings.SplitN(resp, "\t", 2)[0], " ## ") }

// commentSeq: what the file was written with - C:<text> for a non-empty comment, T:<name>:<docstring or -> per task, A per assignment
func (f cFile) commentSeq() []string {
	var l []string
	for _, s := range f.stmts {
		switch s.kind {
		case 'C':
			l = append(l, "C:"+strings.TrimSpace(s.text))
		case 'T':
			// a docstring is its trimmed text; a blank comment line above a task is a comment that must stay where it is, whether
			// or not the implementation calls it a docstring
			d := "-"
			if s.hasDoc {
				if t := strings.TrimSpace(s.doc); t != "" {
					d = "+" + t
				} else {
					l = append(l, "C:")
				}
			}
			l = append(l, "T:"+s.name+":"+d)
		default:
			l = append(l, "A")
		}
	}
	return l
}

// scanFormatted reads the same sequence off formatted text, knowing only its layout: a statement starts in column 0; a
// comment is a line starting with '#'; a task header runs to the first '{' outside quotes and its body to the next line
// that is exactly "}"; an assignment runs to the end of the line outside quotes; a comment line directly above a task
// header is that task's docstring.
func scanFormatted(t string) []string {
	var l []string
	pending, havePending := "", false
	flush := func() {
		if havePending {
			l = append(l, "C:"+pending)
		}
		havePending = false
	}
	i := 0
	for i < len(t) {
		switch {
		case t[i] == '\n':
			i++
			if havePending { // a blank line separates: the comment above stands alone
				flush()
			}
		case t[i] == '#':
			flush()
			j := strings.IndexByte(t[i:], '\n')
			if j < 0 {
				j = len(t) - i
			}
			line := t[i+1 : i+j]
			pending, havePending = strings.TrimSpace(line), true
			i += j + 1
			if i > len(t) {
				i = len(t)
			}
		case strings.HasPrefix(t[i:], "task "):
			j, inStr := i+5, false
			for j < len(t) && (inStr || t[j] != '{') {
				if t[j] == '"' {
					inStr = !inStr
				}
				j++
			}
			name := strings.TrimSpace(strings.SplitN(t[i+5:j], "(", 2)[0])
			d := "-"
			if havePending && pending != "" {
				d = "+" + pending
				havePending = false
			}
			flush() // a blank comment line above the task: a comment in its place, not a docstring text
			l = append(l, "T:"+name+":"+d)
			if k := strings.Index(t[j:], "\n}\n"); k >= 0 {
				i = j + k + 3
			} else {
				i = len(t)
			}
		default:
			flush()
			j, inStr := i, false
			for j < len(t) && (inStr || t[j] != '\n') {
				if t[j] == '"' {
					inStr = !inStr
				}
				j++
			}
			l = append(l, "A")
			i = j + 1
		}
	}
	flush()
	return l
}

// fmtCLI: `spok --fmt` itself (C07 is about the command that overwrites the user's file, not only about Tree.String()).
// Loadable spokfiles - every task dependency is defined, no exec - with repeated dependencies, shared outputs and odd
// layout are written to a project directory, `spok --fmt` is run there, and the file it leaves behind must be exactly what
// the formatter gives for the parsed tree, and must parse to the same variables and tasks.
func fmtCLI(spok, out string, seed int64, shard int, tier string, st *cstStats, bo *bufio.Writer) {
	r := rand.New(rand.NewSource(seed*104729 + int64(shard)))
	n := 40
	if tier == "thorough" {
		n = 400
	}
	tmp, err := os.MkdirTemp(out, "fmtcli")
	if err != nil {
		return
	}
	defer os.RemoveAll(tmp)
	files := []string{"\"main.go\"", "\"go.mod\"", "\"*.txt\"", "\"**/*.go\"", "\"a b.txt\""}
	for k := 0; k < n; k++ {
		var b strings.Builder
		if r.Intn(2) == 0 {
			b.WriteString("OUT := \"out.bin\"\n# a comment\n")
		}
		nt := 1 + r.Intn(4)
		for t := 0; t < nt; t++ {
			var deps []string
			for i, m := 0, r.Intn(5); i < m; i++ {
				if t > 0 && r.Intn(3) == 0 {
					deps = append(deps, fmt.Sprintf("t%c", 'a'+r.Intn(t)))
				} else {
					deps = append(deps, files[r.Intn(len(files))])
				}
				if len(deps) > 0 && r.Intn(3) == 0 {
					deps = append(deps, deps[r.Intn(len(deps))]) // the same dependency named again
				}
			}
			if r.Intn(3) == 0 {
				b.WriteString("# doc\n")
			}
			sep := []string{", ", ",", " ,\t", ",\n    "}[r.Intn(4)]
			fmt.Fprintf(&b, "task t%c(%s)", 'a'+t, strings.Join(deps, sep))
			switch r.Intn(4) {
			case 0:
				b.WriteString(" -> \"x.o\"")
			case 1:
				b.WriteString(" -> (\"x.o\", \"x.o\", \"y.o\")")
			case 2:
				if strings.HasPrefix(b.String(), "OUT") {
					b.WriteString(" -> OUT")
				}
			}
			b.WriteString(" {\n\techo hi\n  ls -l\n}\n")
		}
		src := b.String()
		want := parseOnce(src)
		if want.err != nil || want.hang || want.pnc != "" {
			continue
		}
		proj := filepath.Join(tmp, fmt.Sprintf("p%d", k))
		os.MkdirAll(proj, 0o755)
		os.WriteFile(filepath.Join(proj, "spokfile"), []byte(src), 0o644)
		// leftovers with names a formatter might use for scratch copies, longer than anything it will write: they are none of its business
		junk := strings.Repeat("# leftover from some other tool  \n", 40+len(src)/10)
		decoys := []string{"spokfile.tmp", ".spokfile.tmp", "spokfile.bak", "spokfile~", ".spokfile.swp", "spokfile.new"}
		for di, d := range decoys {
			if (k+di)%2 == 0 {
				os.WriteFile(filepath.Join(proj, d), []byte(junk), 0o644)
			}
		}
		cmd := exec.Command(spok, "--fmt")
		cmd.Dir = proj
		cmd.Env = []string{"HOME=" + tmp, "PATH=/usr/bin:/bin"}
		if err := cmd.Run(); err != nil {
			st.Features["fmt_cli_refused"]++
			continue
		}
		st.Features["fmt_cli_runs"]++
		got, _ := os.ReadFile(filepath.Join(proj, "spokfile"))
		// formatting the formatted file once more through the command line changes nothing (C11), and the leftovers are as they were
		cmd2 := exec.Command(spok, "--fmt")
		cmd2.Dir = proj
		cmd2.Env = cmd.Env
		if err := cmd2.Run(); err != nil {
			st.OracleFail["C11"]++
			fmt.Fprintf(bo, "C11 %s `spok --fmt` a second time failed: %v (the file now holds %q)\n", hx(src), err, string(got))
		} else if got2, _ := os.ReadFile(filepath.Join(proj, "spokfile")); string(got2) != string(got) {
			st.OracleFail["C11"]++
			fmt.Fprintf(bo, "C11 %s `spok --fmt` twice leaves %q, once leaves %q\n", hx(src), string(got2), string(got))
		}
		for di, d := range decoys {
			if (k+di)%2 == 0 {
				if b, err := os.ReadFile(filepath.Join(proj, d)); err != nil || string(b) != junk {
					st.OracleFail["C19"]++
					fmt.Fprintf(bo, "C19 %s `spok --fmt` changed or removed %s, a file next to the spokfile that is none of its business\n", hx(src), d)
				}
			}
		}
		// what --fmt leaves must define the same variables and tasks (whether it is byte for byte Tree.String() is not the point)
		again := parseOnce(string(got))
		if again.err != nil || sem(again.tree) != sem(want.tree) {
			st.OracleFail["C07"]++
			fmt.Fprintf(bo, "C07 %s the file written by `spok --fmt` (%q) does not define the same variables and tasks\n", hx(src), string(got))
		}
	}
	if shard != 0 {
		return
	}
	// big spokfiles through the command line (the properties have no size limit): (A) 1.2 MiB, mostly comments, with a variable
	// and a documented task at the very end; (B) compact source below 1 MiB whose formatted text is above it
	var a strings.Builder
	a.WriteString("# head\ntask first() {\n    echo first\n}\n\n")
	for i := 0; i < 20000; i++ {
		fmt.Fprintf(&a, "# filler line %05d .........................................\n", i)
	}
	a.WriteString("# the last free comment\n\nOUT := \"x\"\n\n# doc of last\ntask last() {\n    echo last\n}\n")
	var bsrc strings.Builder
	bsrc.WriteString("# a\n")
	for i := 0; i < 120000; i++ {
		bsrc.WriteString("A:=\"b\"\n")
	}
	countHash := func(t string) int {
		n := 0
		for _, l := range strings.Split(t, "\n") {
			if strings.HasPrefix(strings.TrimSpace(l), "#") {
				n++
			}
		}
		return n
	}
	// (C) CRLF line ends and one line of 70,000 characters (a pasted certificate) in the middle
	csrc := "NAME := \"n\"\r\n\r\n# doc of first\r\ntask first() {\r\n    echo first\r\n}\r\n\r\nBLOB := \"" + strings.Repeat("A1b2", 17500) + "\"\r\n\r\n# doc of last\r\ntask last() {\r\n    echo last\r\n}\r\n"
	for name, src := range map[string]string{"big-file-A(1.2MiB,20003-comments)": a.String(), "big-file-B(0.8MiB-compact,120000-assignments)": bsrc.String(), "big-file-C(CRLF,one-line-of-70000-characters)": csrc} {
		proj := filepath.Join(tmp, "big")
		os.RemoveAll(proj)
		os.MkdirAll(proj, 0o755)
		os.WriteFile(filepath.Join(proj, "spokfile"), []byte(src), 0o644)
		run := func() error {
			cmd := exec.Command(spok, "--fmt")
			cmd.Dir = proj
			cmd.Env = []string{"HOME=" + tmp, "PATH=/usr/bin:/bin"}
			return cmd.Run()
		}
		if err := run(); err != nil {
			st.Features["fmt_cli_refused"]++
			continue
		}
		st.Features["fmt_cli_big_files"]++
		got, _ := os.ReadFile(filepath.Join(proj, "spokfile"))
		tag := hx(name)
		if c0, c1 := countHash(src), countHash(string(got)); c0 != c1 || (strings.Contains(src, "# doc of last") && !strings.Contains(string(got), "# doc of last\ntask last(")) {
			st.OracleFail["C15"]++
			fmt.Fprintf(bo, "C15 %s a spokfile of %d bytes with %d comment lines: after `spok --fmt` the file has %d bytes and %d comment lines\n", tag, len(src), c0, len(got), c1)
		}
		w, g := parseOnce(src), parseOnce(string(got))
		if w.err == nil && !w.hang && !g.hang && w.pnc == "" && g.pnc == "" && (g.err != nil || sem(g.tree) != sem(w.tree)) { // (a parse cut short by the watchdog on a loaded machine decides nothing)
			st.OracleFail["C07"]++
			fmt.Fprintf(bo, "C07 %s a spokfile of %d bytes: the %d bytes written by `spok --fmt` do not define the same variables and tasks\n", tag, len(src), len(got))
		}
		if err := run(); err != nil {
			st.OracleFail["C11"]++
			fmt.Fprintf(bo, "C11 %s a spokfile of %d bytes: `spok --fmt` a second time failed on the %d bytes the first one wrote: %v\n", tag, len(src), len(got), err)
		} else if got2, _ := os.ReadFile(filepath.Join(proj, "spokfile")); string(got2) != string(got) {
			st.OracleFail["C11"]++
			fmt.Fprintf(bo, "C11 %s a spokfile of %d bytes: `spok --fmt` once leaves %d bytes, twice leaves %d bytes\n", tag, len(src), len(got), len(got2))
		}
	}
}
