// Command verifh is the Go side of the correspondence checks for spok: it generates
// cases, runs the real implementation (built from /repo's working tree through the
// replace directive in go.mod) on them and writes projected observables.
package main

import (
	"fmt"
	"os"
)

var commands = map[string]func(args []string) error{}

func main() {
	if len(os.Args) < 2 {
		fmt.Fprintln(os.Stderr, "usage: verifh <command> [args]")
		os.Exit(2)
	}
	cmd, ok := commands[os.Args[1]]
	if !ok {
		fmt.Fprintf(os.Stderr, "unknown command %q\n", os.Args[1])
		os.Exit(2)
	}
	if err := cmd(os.Args[2:]); err != nil {
		fmt.Fprintln(os.Stderr, "verifh:", err)
		os.Exit(3)
	}
}
